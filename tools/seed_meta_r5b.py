#!/usr/bin/env python3
"""meta.json for the second half of round 5 (C10-C20). Table written by hand from the sub-agents' NOTES.md; detection from the current sweep."""
import json, os, subprocess, sys
T = {
 "C10-r5m2": ("GetStateProof builds its read-only trie with mpt.ModeAll instead of the module's mode minus the GC flag", "KeepOnlyLatestState or RemoveUntraceableBlocks (records carry a counter suffix): every proof item has five extra bytes and VerifyProof rejects it", "pkg/core/stateroot", "TestC10Demo_StateProof", "missed", "historic-root layout clause added after (reader's mode must derive from the module's)"),
 "C11-r5m1": ("putBatchIntoLeaf releases the current leaf only when the batch replaces it", "a key that is a proper prefix of a longer key put later in a batch: the preserved leaf is re-added by newSubTrieMany and gains a reference per block", "pkg/core/stateroot", "TestC11Demo_PrefixKeyLeaf", "missed", "rc-curr-released added after"),
 "C11-r5m2": ("statesync restoreNode overwrites the children paths of a node per path instead of accumulating them", "source state with a subtree that hangs off the trie twice: its descendants are restored for one path only and counted once", "pkg/core/statesync", "TestC11Demo_RepeatedSubtreeRestore", "missed", "multimap-merge existed (C20); registered for C11 after"),
 "C12-r5m1": ("POPITEM's Struct arm no longer records that the container is still referenced", "struct referenced from a slot, POPITEM of a compound element: the element stays counted once too often, the limit is hit too early", "pkg/vm", "TestC12Demo_M1", "missed", "sibling-arms added after"),
 "C12-r5m2": ("SetGasLimit multiplies before clamping", "limit above MaxInt64/10000 Datoshi: the product wraps to a negative (= unlimited) value", "pkg/vm", "TestC12Demo_M2", "missed", "limit-scale tightened after (a clamp counts only when applied to the operand)"),
 "C13-r5m1": ("bigint.ToPreallocatedBytes restores the in-place decremented magnitude with the decrement's wrap constant", "multi-word negative Integer whose lowest word is 0 or 2^64-1 (-2^64, -2^255), converted to bytes while still referenced", "pkg/vm", "TestC13Demo_NegInt", "missed", "wrap-carry added after"),
 "C13-r5m2": ("ASSERTMSG converts its message only when the assertion fails", "true condition with a message that is not valid UTF-8 / not a primitive: HALT instead of FAULT", "pkg/vm", "TestC13Demo_ASSERTMSG", "missed", "operand-validated added after"),
 "C15-r5m1": ("checkScope's CustomGroups branch answers for the whole signer", "signer with CustomGroups|CustomContracts where only the contract list matches", "pkg/core/interop/runtime", "TestC15Demo_M1", "missed", "cond-context arm-falls-through clause added after"),
 "C15-r5m2": ("CallingScriptHasGroup answers false at once in a called-by-entry context", "CalledByGroup rule, contract called by the entry contract of a group", "pkg/core/interop/runtime", "TestC15Demo_M2", "missed", "cond-context adapter no-shortcut clause added after"),
 "C16-r5m1": ("System.Runtime.LoadScript no longer intersects the requested flags with the loader's", "loader context without ReadStates loads a script asking for ReadStates", "pkg/core/interop/runtime", "TestC16Demo_LoadScriptFlagsShrink", "DETECTED call-guards", "rule existed before the seed was looked at"),
 "C16-r5m2": ("System.Storage.Local.Delete requires ReadStates instead of WriteStates", "read-only context (ReadStates only) deleting its storage after Faun", "pkg/core/interop/storage", "TestC16Demo_LocalStorageNeedsWriteStates", "DETECTED flags-effects", "rule existed before the seed was looked at"),
 "C17-r5m1": ("MPTData.DecodeBinary's loop no longer stops at the first read failure", "6-byte message announcing 2^24 nodes: 16M empty appends", "pkg/network", "TestC17Demo_", "DETECTED decoded-loop", "rule existed before the seed was looked at"),
 "C17-r5m2": ("GetExpectedBlockSizeWithoutTransactions takes the size of the tx counter from the receiver's transactions instead of its argument", "proposal with >= 253 transactions estimated on a block without transactions: estimate 2 bytes short", "pkg/core", "TestC17Demo_", "missed", "param-used added after"),
 "C20-r5m1": ("defineSyncStage derives the billet's record layout from KeepOnlyLatestState alone", "RemoveUntraceableBlocks without KeepOnlyLatestState: restored records lack the counter suffix the state-root module expects", "pkg/core/statesync", "TestC20Demo_LightGCNodeWithoutKeepOnlyLatestState", "missed", "record-layout-agreement added after"),
 "C20-r5m2": ("addHeaders compares the trusted header hash before the known headers are cut from the batch", "batch overlapping the known headers whose first new header is the trusted one: a forged header passes", "pkg/core/statesync", "TestC20Demo_ForgedTrustedHeaderInOverlappingBatch", "missed", "trusted-header-checked added after"),
 "C19-r5m1": ("recoveryMessage.DecodeBinary creates the embedded PrepareRequest without the stateRootEnabled context", "StateRootInHeader on; a delay-only schedule after which recovery is the only way out: every RecoveryMessage carrying a PrepareRequest fails to decode", "pkg/consensus", "TestC19Demo_M1", "DETECTED decode-context", "rule existed before the seed was looked at"),
 "C19-r5m2": ("updateExtensibleWhitelist asks ShouldUpdateCommitteeAt(height+1): the sender list is rebuilt one block before NEO switches the validators", "candidates registered, >= 20% of NEO voting, validator set changes at an epoch boundary: payloads of the new validators are refused by every pool", "pkg/consensus", "TestC19Demo_M2", "missed", "epoch-mirror added after"),
}
if os.path.exists("/verif/tools/seed_meta_r5b_extra.json"):
    T.update({k: tuple(v) for k, v in json.load(open("/verif/tools/seed_meta_r5b_extra.json")).items()})
sweep = subprocess.run(["/verif/tools/seed_sweep.py"] + sys.argv[1:], capture_output=True, text=True).stdout
det = {}
for line in sweep.splitlines():
    parts = line.split()
    if len(parts) >= 2:
        det[parts[0]] = (parts[1], " ".join(parts[2:]))
for name, row in sorted(T.items()):
    d = "/verif/seeded/" + name
    if row is None or not os.path.isfile(d + "/patch.diff"):
        continue
    what, needs, demodir, test, first, hist = row
    status, rules = det.get(name, ("?", ""))
    if status == "?":
        print(name, "not in sweep output"); continue
    meta = {
        "property": name[:3], "round": 5, "what": what, "needs": needs,
        "demo": {"copy_to": demodir, "run": "go test -count=1 -run '%s' ./%s/" % (test, demodir)},
        "confirmed": open(d + "/verify.log").read().strip().splitlines() if os.path.isfile(d + "/verify.log") else [],
        "first_sweep": first, "detection": status, "detected_by": rules if status == "DETECTED" else None,
        "source": "fresh sub-agent given only the property text and the list of earlier mutations to avoid; confirmed by tools/verify_seed.sh in a scratch worktree",
        "history": hist,
    }
    json.dump(meta, open(d + "/meta.json", "w"), indent=1)
    print("%-12s %-9s %s" % (name, status, rules))
