#!/usr/bin/env python3
"""One-off editor for DESIGN.md (round-3 batch B, findings 17-26, new rules). Idempotent: refuses to run twice."""
import re, sys
p = '/verif/DESIGN.md'
s = open(p).read()
if 'decoder-panics' in s and 'findings 17' in s.lower():
    sys.exit('already applied')

def rep(old, new, count=1):
    global s
    assert s.count(old) >= 1, old[:60]
    s = s.replace(old, new, count)

rep('''produced **fifteen
genuine defects**, each demonstrated against the real code with a Go test kept
under `/verif/findings/` (§6): thirteen are repaired by minimal `fix:` commits in
`/repo`, two (four obligation keys) are recorded as known findings.''',
'''produced **twenty-six
genuine defects**, each demonstrated against the real code with a Go test kept
under `/verif/findings/` (§6): twenty-three are repaired by minimal `fix:` commits in
`/repo`, three (six obligation keys) are recorded as known findings.''')
rep('one Go\nprogram, `nvcheck`, ≈17 000 lines', 'one Go\nprogram, `nvcheck`, ≈20 000 lines')

# verdict table rows
rows = {
 'C03': '| C03 | claimed (partial) | `mpt-batch-source` (incl. re-rooting after reset), `historic-root` (reader mode, **fixed defect**), `mpt-reader`, `proof-key`, `seek-orientation` (**fixed defect**; incl. `start-consumed`), `storage-prefix`, `unsigned-window` (**fixed defect**), generic rules of §3 | other |',
 'C06': '| C06 | claimed (partial) | `accept-dominators` (AddBlock, addHeaders, verifyHeader, verifyHeaderWitnesses; height read under `addLock`), `commit-point` (incl. pool refresh after publish) | other |',
 'C10': '| C10 | claimed (partial) | `node-switch`, `append-alias` (**fixed defect**), `proof-key`, `mpt-reader`, `rc-writers`, `seek-orientation` (incl. `start-consumed`), `limit-coherence`, `value-absence` | other |',
 'C11': '| C11 | claimed (partial) | `rc-writers` (incl. the GC guard and the folded-counter write-back), `rc-loaded`, `store-value-immutable` (**fixed defect**), `mpt-reader`, `working-trie` (unmasked mode and own store on every opening; flush height = index of the root record) | other |',
 'C12': '| C12 | claimed (partial) | `opcode-tables`, `panic-scope`, `gas-before-dispatch`, `limit-guards`, `bigint-ctor`, `slot-scope`, `clone-supersedes`, `jump-opcode-agreement` | other |',
 'C13': '| C13 | claimed (partial) | `opcode-tables`, `bigint-ctor`, `operand-immutable`, `map-index-comaintenance`, `byte-moves` | other |',
 'C16': '| C16 | claimed (partial) | `flags-effects` (44 syscalls + 130 native registrations), `native-flag-check`, `call-guards` (incl. the CALLT flag test folded over all flag subsets), `perm-method-check` (**fixed defect**), `wild-nonnil` | other |',
 'C17': '| C17 | claimed (partial) | `codec-symmetry`, `codec-guards`, `decode-context`, `bounded-alloc` (**fixed defect**), `signed-count` (**2 fixed defects**), `varint-agreement` (**fixed defect**), `decoder-panics` (**4 fixed defects**), `compress-frame` (**fixed defect**), `depth-guard`, `wild-nonnil`, `hash-canonical` (**known finding**) | other |',
 'C19': '| C19 | claimed (partial) | `proposal-dominators` (incl. every pool read of `getVerifiedTx` passing the policy cut), `loop-confinement`, `recovery-rebuild`, `codec-guards`, `decode-context` | other |',
 'C20': '| C20 | claimed (partial) | `lock-pairing`, `lockset`, `chan-typestate` (**fixed defect**; incl. wake-up on every Put), `sync-guards` (incl. height read under `addLock`), `stage-machine` (the state jump), `traverse-callback` (**fixed defect**), `unsigned-window` | other |',
}
for k, row in rows.items():
    m = re.search(r'^\| %s \| claimed \(partial\) \|.*$' % k, s, re.M)
    assert m, k
    s = s[:m.start()] + row + s[m.end():]

# findings table additions
rep('''Design-time suspicions that stayed suspicions''', '''| 17 | C17 · `varint-agreement` | `io.PutVarUint` compared the 16- and 32-bit borders exclusively (`val < 0xFFFF`, `val < 0xFFFFFFFF`): a count of exactly 0xFFFF (0xFFFFFFFF) was written in 5 (9) bytes while `io.GetVarSize` estimated 3 (5) - `Size()` differed from the length of the encoding and the bytes from every other implementation's. Remarked by a round-3 sub-agent; the rule folds writer, estimator and reader over the sixteen border values (go/constant over the source). | fixed `aeaf1b7` |
| 18 | C17 · `signed-count` | stack item deserialisation converted the element count to `int` *before* comparing it with the limit: 2⁶⁴-1 became -1, passed, and `make` panicked for Array/Struct (`makeslice: len out of range`) while a Map with that count was silently accepted as empty. | fixed `dc0d436` |
| 19 | C17 · `signed-count` | the same shape in `payload.(*MerkleBlock).DecodeBinary`: -1 passed the `MaxTransactionsPerBlock` test and, given to `ReadArray` as the maximum, switched the limit off (`uint64(-1)`): a 126-byte P2P message allocated a hash slice of any length named by the sender (1 GiB in the demo). Found by the rule's site enumeration (5 count conversions in 107 decoders). | fixed `be449d8` |
| 20 | C20 · `traverse-callback` | `statesync.(*Module).defineSyncStage` rebuilds the pool of missing nodes with a `Billet.Traverse` callback that removes a node's hash at its first occurrence and panicked at the second (`failed to get MPT node from the pool`): two restored sibling leaves with equal values (two accounts with the same balance) have one hash, so a node restarted in the middle of a state synchronisation panicked on every start. Remarked by two sub-agents (rounds 2 and 3); demonstrated through the real `defineSyncStage` with a nine-method ledger stub. | fixed `6164f89` |
| 21 | C17 · `decoder-panics` | `stackitem` deserialisation handed a decoded key to `Map.Add`, which panics on an invalid key: six bytes (Map, count 1, Array key) made `Deserialize` panic. Remarked by a round-3 sub-agent; the rule that expresses it (explicit panics reachable from decoders in the resolved call graph, each gated by a validator the decoder calls first, or tabled with a reason) then found 22-24 by enumeration. | fixed `54f58b1` |
| 22 | C17 · `decoder-panics` | `stackitem.FromJSON` added property names as map keys without `IsValidMapKey` (its sibling `FromJSONWithTypes` validates): a 65-byte property name panicked. | fixed `1b6de11` |
| 23 | C17 · `decoder-panics` | `stackitem.FromJSONWithTypes` passed an Integer of any length to `NewBigInteger`, which panics above 256 bits: RPC results, notifications and stored invocation arguments are decoded with it. | fixed `dbea216` |
| 24 | C17 · `decoder-panics` | `stackitem.FromJSON` passed an exact JSON integer of any size (`1e100`) to `NewBigInteger`. | fixed `42a8eb7` |
| 25 | C17 (C19) · `compress-frame` | `network.(*Message).tryCompressPayload` serialises the payload anew on every call but skipped compression *and kept the flag* when `Compressed` was already set. `Server.iteratePeersWithSendMsg` encodes one message twice for a mixed peer set (compressed, then uncompressed for peers that disabled compression): the second encoding announced `Compressed` over a plain body and the receiver failed with "invalid uncompressed payload length" - every broadcast above 1 KiB (a PrepareRequest with more than ~30 transactions) was lost for such peers; the same for decode-then-encode. The decode-then-encode half was remarked by a sub-agent; the double encoding was found reading `iteratePeersWithSendMsg` for the demo. | fixed `1b3ae6e` |

Observations that are arithmetic wraps outside the listed properties (recorded, tabled with their reason in `unsignedDiffOK`, not repaired): `Blockchain.tryRunGC` computes `int64(syncP-mtb)` on unsigned values, which wraps while the chain is shorter than MaxTraceableBlocks plus two sync intervals - `min()` then ignores the state-exchange alignment and blocks a syncing peer would ask for first are removed; `Server.requestBlocksOrHeaders` computes `peerH - GetMaxTraceableBlocks()` unsigned, so on a young chain a node with `ArchivalNodesSync` asks no non-archival peer for blocks. `mempool.(*Pool).Verify` writes `mp.fees` under the read lock (a data race outside C08's clauses).

Design-time suspicions that stayed suspicions''')

rep('''`C11-count-patched-in-place` are exactly those reverts).''', '''`C11-count-patched-in-place`, `C17-varuint-border-exclusive`, `C17-stackitem-count-signed`, `C17-merkleblock-count-signed`,
`C20-restart-panics-on-equal-siblings`, `C17-map-key-unvalidated`, `C17-json-map-key-unvalidated`,
`C17-typed-json-integer-unchecked`, `C17-json-number-unchecked`, `C17-compressed-flag-sticky` are exactly those reverts).''')

# rule catalogue additions: append before "## 4. Per property"
cat = '''
### Rules added in the last third of the build (rounds 2-3 and the finding hunts)

All of them are site enumerations with an instance floor; the reason each is a *necessary* condition of its
property, and what would make it a false alarm, is stated with it.

* **`varint-agreement`** (C17). The writer `io.PutVarUint`, the estimator (the `func(int) int` that `io.GetVarSize`
  calls - found by signature, not by name) and the reader `ReadVarUint` are decision chains over one integer. A
  60-line folder (`miniEval`: go/constant arithmetic over the AST; if/else-if chains, constant assignments, returns;
  it executes nothing) evaluates each chain for sixteen values around the format's borders and requires: minimal
  width, estimator = writer up to 2³²-1, and for each multi-byte form the reader takes after the writer's prefix
  byte the payload the writer puts. 20 evaluations, floor 20.
* **`signed-count`** (C17). In the 107 functions that reach an `io.BinReader`: a conversion of a decoded 64-bit
  unsigned value to a signed type whose result sizes a `make`, bounds a loop, is compared with a limit or is handed
  to a reader as its maximum must either follow an ordering comparison of the *unsigned* value or be followed by a
  test against zero. 10 conversions, 5 used as counts (floor 3).
* **`decoder-panics`** (C17). Roots: every `DecodeBinary`, `UnmarshalJSON`, `FromStackItem` of the node's packages
  and `stackitem.Deserialize*`/`FromJSON*` (≥ 60). Every explicit panic in a module function reachable through the
  resolved call graph is either **gated** - in each reachable caller, every call of the panicking function is
  preceded on all paths by the validator the table names (`IsValidMapKey`, `CheckIntegerSize`/`ReadVarBytes` with
  the 32-byte limit, or an ordering comparison of `len`) - or **tabled** with the reason input bytes cannot reach it
  (programming-error panics of `ReadArray`/`WriteArray`/`GetVarSize`, buffer writers that cannot fail, call-graph
  imprecision through `Item`/`Hash()` interfaces). Compiler-inserted panics without a position (range-over-func) are
  skipped. Runtime panics (index, nil, makeslice) are *not* covered - that is what `bounded-alloc`/`signed-count`
  are for. 19 sites: 5 gated, 14 tabled.
* **`codec-guards`**, **`decode-context`** (C17, C19). Where encoder and decoder of one type both guard wire
  operations by comparing the same field with constants, the constant sets agree (1 instance: the change-view
  reason). A *context field* is a bool of a serialisable type that its methods read and its decoder never assigns
  (derived: the consensus state-root flag ×3, `block.Header.StateRootEnabled`, `Headers.StateRootInHeader`); a
  decoder of a context-dependent type that creates a nested context-dependent value must set that value's context
  field (4 instances).
* **`compress-frame`** (C17). The destination of `lz4.CompressBlock` is sized by `lz4.CompressBlockBound` of the
  same source (the library gives up silently otherwise); the destination of `UncompressBlock` has a bounded
  announced size and the produced size gates the success return; every function of `pkg/network` that assigns the
  message's wire body writes `Flags` on every path to that assignment.
* **`working-trie`** (C11). Every assignment of the state-root module's working trie is `NewTrie(root, <the module's
  mode, no &^/&/^ anywhere in its derivation>, <the module's own Store, not wrapped>)` (4 openings); the height given
  to `Flush` mentions the same symbols as the `Index` of the `MPTRoot` literal written by the same function.
* **`start-consumed`** (clause of `seek-orientation`; C03, C09, C10). From the first comparison of a node's position
  with the start point, each CFG edge is followed with the rows (direction × {before, after}) under which it is
  taken (the comparison is folded by the existing orientation evaluator; the equal row is infeasible in the
  diverging arm, which is what makes `Trie.Find`'s `switch` pass); reaching a call that receives the start variable
  with a non-empty row set and no assignment of that variable on the way is a violation: a kept subtree would be
  scanned with a start that is relative to another node. 3 instances (Find, TrieStore.Seek, Billet.traverse).
* **token-call flags** (clause of `call-guards`; C16). A function of package `contract` that reaches `callInternal`
  without being a table-registered system call (the CALLT handler `LoadToken`) is folded, with the flag-aware
  `miniEval`, for every subset of the flags `System.Contract.Call`'s *registration* requires: `callInternal` is
  reached exactly when all of them are present. The mask comes from the sibling's table row, not from the rule.
* **`getVerifiedTx.policy`** (clause of `proposal-dominators`; C07, C19). Every path from a pool read
  (`GetVerifiedTransactions`, `TryGetValue`) to the return passes `ApplyPolicyToTxSet`, the empty-set edge of a
  `len(...) > 0` test excepted. 3 pool reads.
* **height under lock** (gate in `accept-dominators` and `sync-guards`; C06, C20). In `Blockchain.AddBlock` the call
  of `BlockHeight` is preceded on every path by `addLock.Lock()` (the must-pass engine now also accepts lock calls as
  statement sites): the index test and the store are one critical section.
* **window differences** (widening of `unsigned-window`). Besides compared differences, every `a - b` whose
  subtrahend mentions a `MaxTraceableBlocks` source is examined wherever it is used; unguarded ones are failures
  unless tabled with their consequence (1 tabled, see §6 observations).
* **`byte-moves`** (C13). In `pkg/vm` no loop stores into an element of a byte slice that was not `make`d in the same
  function a byte taken from another byte slice: the splice instructions may be given one buffer twice, and only the
  builtin `copy` is defined for overlapping operands. 0 loops, 5 `copy` sites (floor 4); the positive example is the
  seed `C13-r3m1`.
* **`traverse-callback`** (C20). A function literal handed to `Billet.Traverse` that removes `<node>.Hash()` from a
  container must not panic merely because a lookup of the node's hash in that container fails - unless the panic is
  also conditioned (enclosing conditions, or an earlier bail-out `if` of the enclosing block; a re-used `ok` is
  resolved positionally) on absence from a second container the callback fills. 1 instance.

'''
rep('''## 4. Per property

Common to every section:''', cat + '''## 4. Per property

Common to every section:''')

# §10 additions
s = s.rstrip('\n') + '''

* **`decoder-panics` first run (13 of 19 sites were not defects).** The resolved call graph reaches `mpt` hash
  panics and the VM's `exceptionHandlingContext` from decoders through the `Hash()`/`Item` interfaces, and the
  programming-error panics of `ReadArray`/`WriteArray`/`GetVarSize` from every decoder. Each was read and tabled with
  its reason (per function, one line each); the four that input bytes do reach became findings 21-24. Client-side
  decoders (`pkg/rpcclient`, `cli`, `internal`) were taken out of the roots: they are not the node's, and
  `ByteArray.equalsLimited` panicking on a 64 KiB item sent by a hostile *server* is theirs to decide.
* **`decoder-panics` gate demanded one idiom.** `ByteArray.TryInteger` calls `bigint.FromBytes` behind a length
  comparison, not behind `ReadVarBytes(limit)`; the first version reported it. The gate now accepts either the tabled
  validator call or an ordering comparison of `len` that dominates the call.
* **`start-consumed` and the infeasible row.** A path-insensitive version flags `Trie.Find`: its `switch` has arms
  for `cmp < 0` and `cmp > 0` only, and the fall-through (equal) leaves the start untouched - but equality is handled
  by an earlier arm. Following edges with the row sets under which they are taken (two signs, no equal row) decides
  it without a table entry.
* **`decode-context` lost its own anchor under the mutation it was written for.** With `new(message)` in
  `recoveryMessage.DecodeBinary` nothing in that decoder read the flag any more, the type stopped being
  "context-dependent" and the rule reported only a floor loss. Context fields are now those read by *any* method of
  the type and never assigned by its decoder.
* **`working-trie`/`unsigned-window` tabled site.** Widening `unsigned-window` to uncompared differences flagged
  `tryRunGC`'s `int64(syncP-mtb)`. It does wrap; its consequence (state-exchange alignment skipped on short chains)
  is outside the listed properties, so it is tabled with that consequence spelled out rather than "fixed" under a
  property it does not break, and listed in §6 as an observation.
* **A panic in the checker counts as an alarm.** Extending `NodeSites` to lock calls dereferenced a non-call
  statement and `commit-point` panicked on the unchanged tree (`coverage-lost`, exit 1). Caught by the all-properties
  quick run that follows every engine change; the order of the two tests was fixed.
'''
open(p, 'w').write(s)
print('ok')
