#!/usr/bin/env python3
"""reverify_demos.py [prefix] - for every seed: does its own demonstration still fail with the mutation and pass without
it on the *current* /repo? (Repairs made since the seed was confirmed can mask a mutation.) Uses scratch worktrees
under /tmp/vs/rv<N>; prints one line per seed: name  with-mutation  on-HEAD."""
import json, os, re, shutil, subprocess, sys
from concurrent.futures import ThreadPoolExecutor
import threading, queue
pref = sys.argv[1] if len(sys.argv) > 1 else ""
seeds = sorted(d for d in os.listdir("/verif/seeded") if d.startswith(pref) and os.path.isfile(f"/verif/seeded/{d}/meta.json"))
N = 4
env = dict(os.environ, GOFLAGS="-mod=mod")
for k in ("GOTOOLCHAIN", "GOSUMDB", "GOPROXY"):
    env.pop(k, None)
head = subprocess.run(["git", "-C", "/repo", "rev-parse", "HEAD"], capture_output=True, text=True).stdout.strip()
wts = queue.Queue()
for i in range(N):
    w = f"/tmp/vs/rv{i}"
    if not os.path.isdir(w):
        subprocess.run(["git", "-C", "/repo", "worktree", "add", "--detach", w, head], capture_output=True)
    else:
        subprocess.run(["git", "-C", w, "checkout", "-q", "--detach", head], capture_output=True)
    wts.put(w)
def sh(cmd, cwd):
    return subprocess.run(cmd, cwd=cwd, shell=True, capture_output=True, text=True, env=env, timeout=1500)
def run(name):
    m = json.load(open(f"/verif/seeded/{name}/meta.json"))
    demo = m.get("demo") or {}
    d, cmd = demo.get("copy_to"), demo.get("run")
    if not d or not cmd or not os.path.isfile(f"/verif/seeded/{name}/demo_test.go"):
        return name, "no-demo", ""
    w = wts.get()
    try:
        sh("git checkout -q -- . && git clean -fdq", w)
        tgt = f"{w}/{d}/zz_rv_demo_test.go"
        shutil.copy(f"/verif/seeded/{name}/demo_test.go", tgt)
        r0 = sh(cmd, w)
        a = sh(f"git apply /verif/seeded/{name}/patch.diff", w)
        if a.returncode != 0:
            return name, "STALE", ""
        r1 = sh(cmd, w)
        res = lambda r: "pass" if r.returncode == 0 else ("buildfail" if "[build failed]" in r.stdout + r.stderr or "[setup failed]" in r.stdout + r.stderr else "FAIL")
        return name, res(r1), res(r0)
    except subprocess.TimeoutExpired:
        return name, "timeout", ""
    finally:
        sh("git checkout -q -- . && git clean -fdq", w)
        wts.put(w)
with ThreadPoolExecutor(max_workers=N) as ex:
    for name, mut, hd in ex.map(run, seeds):
        flag = "" if (mut == "FAIL" and hd == "pass") else "   <== CHECK"
        print("%-45s with-mutation=%-9s on-HEAD=%-9s%s" % (name, mut, hd, flag), flush=True)
