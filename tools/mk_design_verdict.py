#!/usr/bin/env python3
"""Rewrites the verdict table of DESIGN.md §0 from the checker's own registry (bin/nvcheck -list) and known_findings.json,
so the table cannot drift from what is armed. Generic rules registered for many properties are folded into one phrase."""
import json, re, subprocess, collections
V = "/verif/"
out = subprocess.run([V + "bin/nvcheck", "-list"], capture_output=True, text=True, check=True).stdout
rules = collections.OrderedDict()
for line in out.splitlines():
    pid, rule, _ = line.split("\t", 2)
    rules.setdefault(pid, []).append(rule)
kf = json.load(open(V + "known_findings.json"))
fixed = collections.Counter(); known = collections.Counter()
for s in kf["fixed"]:
    m = re.match(r"fixed: property=(C\d\d) \S+ ([a-z0-9-]+)", s)
    if m:
        fixed[m.group(2)] += 1
seenk = set()
for k in kf["known"]:
    r = k["key"].split(":")[0]
    if (r, k["key"]) not in seenk:
        seenk.add((r, k["key"])); known[r] += 1
count = collections.Counter(r for rs in rules.values() for r in set(rs))
GENERIC = {r for r, n in count.items() if n >= 6}
def fmt(r):
    tags = []
    if fixed[r]:
        tags.append("**%sfixed defect%s**" % (("%d " % fixed[r]) if fixed[r] > 1 else "", "s" if fixed[r] > 1 else ""))
    if known[r]:
        tags.append("**known finding**")
    return "`%s`" % r + (" (" + ", ".join(tags) + ")" if tags else "")
rows = []
for i in range(1, 21):
    pid = "C%02d" % i
    if pid not in rules:
        rows.append("| %s | **not applicable** | — (**not applicable**, §5) | — |" % pid)
        continue
    own = [r for r in rules[pid] if r not in GENERIC]
    gen = [r for r in rules[pid] if r in GENERIC]
    cell = ", ".join(fmt(r) for r in own)
    if gen:
        cell += "; generic rules of §3 over the property's packages: " + ", ".join(fmt(r) for r in gen)
    rows.append("| %s | claimed (partial) | %s | other |" % (pid, cell))
s = open(V + "DESIGN.md").read()
a = s.index("| id  | verdict |")
b = s.index("\n\n", a)
head = s[a:b].split("\n")[:2]
s = s[:a] + "\n".join(head + rows) + s[b:]
open(V + "DESIGN.md", "w").write(s)
print("verdict table rewritten:", sum(len(v) for v in rules.values()), "registrations,", len(count), "distinct rules,", len(GENERIC), "generic")
