#!/usr/bin/env python3
"""try_mut.py PROP file old new [file old new ...] — run a property check with an in-memory edit (overlay) of /repo files."""
import sys, os, tempfile, subprocess, shutil
prop = sys.argv[1]
args = sys.argv[2:]
d = tempfile.mkdtemp(prefix="ov")
try:
    for i in range(0, len(args), 3):
        f, old, new = args[i:i+3]
        dst = os.path.join(d, f)
        src = dst if os.path.exists(dst) else os.path.join("/repo", f)
        s = open(src).read()
        if s.count(old) != 1:
            print("edit does not apply exactly once (%d) in %s" % (s.count(old), f)); sys.exit(3)
        os.makedirs(os.path.dirname(dst), exist_ok=True)
        open(dst, "w").write(s.replace(old, new))
    r = subprocess.run(["/verif/bin/nvcheck", "-property", prop, "-overlay-dir", d, "-out", os.path.join(d, "out"), "-known", "/verif/known_findings.json"] )
    print("exit", r.returncode)
finally:
    shutil.rmtree(d)
