#!/usr/bin/env python3
"""Regenerates /verif/benign/<name>/{patch.diff,meta.json}: behaviour-preserving edits (renames, reorderings, helper
extraction) on which every check of the named properties must stay silent. Each entry: (name, [properties], what,
[(file, [(old, new), ...])...]); word-boundary renames are expressed with the helper rn()."""
import difflib, json, os, re, shutil, sys

def rn(old, new):
    return ("re", r"\b%s\b" % re.escape(old), new)

B = [
 ("rename-wrapped-and-baselines", ["C04", "C16"], "callExFromNative: locals wrapped/baseNtfCount/baseDAO and the callback's commit parameter renamed",
  [("pkg/core/interop/contract/call.go", [rn("wrapped", "isolated"), rn("baseNtfCount", "ntfMark"), rn("baseDAO", "outerDAO"), rn("commit", "succeeded")])]),
 ("rename-verifyheader-params", ["C06"], "verifyHeader/verifyHeaderWitnesses parameters renamed",
  [("pkg/core/blockchain.go", [("func (bc *Blockchain) verifyHeader(currHeader, prevHeader *block.Header) error {", "func (bc *Blockchain) verifyHeader(currHeader, prevHeader *block.Header) error {\n\tcur, parent := currHeader, prevHeader\n\t_, _ = cur, parent")])]),
 ("rename-persist-tempstore", ["C09", "C02"], "MemCachedStore.persist: local tempstore renamed",
  [("pkg/core/storage/memcached_store.go", [rn("tempstore", "frozen")])]),
 ("rename-vapt-locals", ["C07"], "verifyAndPoolTx: locals isPartialTx/needNetworkFee/netFee/size renamed",
  [("pkg/core/blockchain.go", [rn("isPartialTx", "partial"), rn("needNetworkFee", "required"), rn("netFee", "leftover")])]),
 ("rename-applypolicy-locals", ["C19"], "ApplyPolicyToTxSet: locals blockSize/blockSysFee renamed",
  [("pkg/core/blockchain.go", [rn("blockSize", "accSize"), rn("blockSysFee", "accFee")])]),
 ("rename-performseek-done", ["C09"], "performSeek: stop flag and consumer parameter renamed",
  [("pkg/core/storage/memcached_store.go", [rn("done", "stopped"), rn("cont", "consume"), rn("haveMem", "memLeft")])]),
 ("rename-seek-direction", ["C03", "C10"], "Billet.traverse: parameters from/backwards renamed",
  [("pkg/core/mpt/billet.go", [rn("backwards", "descending"), rn("from", "startPath")])]),
 ("rename-increasebalance-params", ["C05"], "NEO/GAS increaseBalance: amount/checkBal renamed",
  [("pkg/core/native/native_neo.go", [("func (n *NEO) increaseBalance(ic *interop.Context, h util.Uint160, si *state.StorageItem, amount *big.Int, checkBal *big.Int) (*gasDistribution, error) {", "func (n *NEO) increaseBalance(ic *interop.Context, h util.Uint160, si *state.StorageItem, delta *big.Int, checkBal *big.Int) (*gasDistribution, error) {\n\tamount := delta")])]),
 ("rename-native-call-reqflags", ["C16"], "native.Call: local reqFlags renamed",
  [("pkg/core/native/interop.go", [rn("reqFlags", "needed")])]),
 ("rename-witness-hash-param", ["C15"], "CheckHashedWitness/checkScope: parameter hash renamed, callingSH renamed",
  [("pkg/core/interop/runtime/witness.go", [rn("callingSH", "callerHash")])]),
 ("rename-loadscript-fs", ["C16"], "runtime.LoadScript: local fs renamed",
  [("pkg/core/interop/runtime/engine.go", [rn("fs", "wantFlags")])]),
 ("rename-vm-parent", ["C15", "C12"], "loadScriptWithCallingHash: local parent renamed",
  [("pkg/vm/vm.go", [rn("parent", "callerCtx")])]),
 ("rename-scriptcheck-jumps", ["C12", "C07"], "IsScriptCorrect: locals jumps/instrs renamed",
  [("pkg/smartcontract/scparser/contract_checks.go", [rn("jumps", "targets"), rn("instrs", "boundaries")])]),
 ("rename-put-mempool-locals", ["C08"], "Pool.Add/RemoveStale: locals renamed",
  [("pkg/core/mempool/mem_pool.go", [rn("newVerifiedTxes", "kept"), rn("policyChanged", "stricter"), rn("conflictsToBeRemoved", "evicted")])]),
 ("reorder-admission-checks", ["C07"], "verifyAndPoolTx: policy check moved before the expiry check (independent checks reordered)",
  [("pkg/core/blockchain.go", [("""	isPartialTx := data != nil
	if t.ValidUntilBlock <= height {""", """	isPartialTx := data != nil
	// Policying.
	if err := bc.policy.CheckPolicy(bc.dao, t); err != nil {
		// Only one %w can be used.
		return fmt.Errorf("%w: %w", ErrPolicy, err)
	}
	if t.ValidUntilBlock <= height {"""), ("""	// Policying.
	if err := bc.policy.CheckPolicy(bc.dao, t); err != nil {
		// Only one %w can be used.
		return fmt.Errorf("%w: %w", ErrPolicy, err)
	}
	size := t.Size()""", """	size := t.Size()""")])]),
 ("extract-size-fee-helper", ["C07"], "verifyAndPoolTx: size and fee checks extracted into a helper returning (leftover fee, error)",
  [("pkg/core/blockchain.go", [("""	size := t.Size()
	if size > transaction.MaxTransactionSize {
		return fmt.Errorf("%w: (%d > MaxTransactionSize %d)", ErrTxTooBig, size, transaction.MaxTransactionSize)
	}
	needNetworkFee := int64(size)*bc.FeePerByte() + bc.CalculateAttributesFee(t)
	netFee := t.NetworkFee - needNetworkFee
	if netFee < 0 {
		return fmt.Errorf("%w: net fee is %v, need %v", ErrTxSmallNetworkFee, t.NetworkFee, needNetworkFee)
	}
""", """	netFee, err := bc.checkSizeAndFee(t)
	if err != nil {
		return err
	}
"""), ("""func (bc *Blockchain) verifyAndPoolTx(""", """func (bc *Blockchain) checkSizeAndFee(t *transaction.Transaction) (int64, error) {
	size := t.Size()
	if size > transaction.MaxTransactionSize {
		return 0, fmt.Errorf("%w: (%d > MaxTransactionSize %d)", ErrTxTooBig, size, transaction.MaxTransactionSize)
	}
	needNetworkFee := int64(size)*bc.FeePerByte() + bc.CalculateAttributesFee(t)
	netFee := t.NetworkFee - needNetworkFee
	if netFee < 0 {
		return 0, fmt.Errorf("%w: net fee is %v, need %v", ErrTxSmallNetworkFee, t.NetworkFee, needNetworkFee)
	}
	return netFee, nil
}

func (bc *Blockchain) verifyAndPoolTx(""")])]),
 ("setter-cache-write-in-helper", ["C01", "C04"], "Policy.setFeePerByte: the cache update moved into a helper, and the order store/cache swapped",
  [("pkg/core/native/policy.go", [("""	setIntWithKey(p.ID, ic.DAO, feePerByteKey, value)
	cache := ic.DAO.GetRWCache(p.ID).(*PolicyCache)
	cache.feePerByte = value
	return stackitem.Null{}
}
""", """	p.cacheFeePerByte(ic, value)
	setIntWithKey(p.ID, ic.DAO, feePerByteKey, value)
	return stackitem.Null{}
}

func (p *Policy) cacheFeePerByte(ic *interop.Context, value int64) {
	cache := ic.DAO.GetRWCache(p.ID).(*PolicyCache)
	cache.feePerByte = value
}
""")])]),
 ("persist-branch-polarity", ["C04", "C06", "C02", "C03"], "storeBlock: the persist test written as `failed := v.HasFailed(); if !failed`",
  [("pkg/core/blockchain.go", [("""		var faultException string
		if !v.HasFailed() {
			_, err := systemInterop.DAO.Persist()""", """		var faultException string
		failed := v.HasFailed()
		if !failed {
			_, err := systemInterop.DAO.Persist()""")])]),
 ("addblock-index-check-rewritten", ["C06"], "AddBlock: the index check compares the other way round through a renamed local",
  [("pkg/core/blockchain.go", [rn("expectedHeight", "nextIndex"), ("if nextIndex != block.Index {", "if block.Index != nextIndex {")])]),
 ("put-early-return-split", ["C20"], "Queue.Put: the slot tests bound to locals, the compound condition split",
  [("pkg/network/bqueue/queue.go", [("""	if bq.queue[pos] == bq.nilQ || bq.queue[pos].GetIndex() < element.GetIndex() {
		// A stale element being replaced is counted already, len is the
		// number of occupied slots.
		if bq.queue[pos] == bq.nilQ {
			bq.len++
		}
		bq.queue[pos] = element""", """	empty := bq.queue[pos] == bq.nilQ
	usable := empty
	if !usable {
		usable = bq.queue[pos].GetIndex() < element.GetIndex()
	}
	if usable {
		// A stale element being replaced is counted already, len is the
		// number of occupied slots.
		if empty {
			bq.len++
		}
		bq.queue[pos] = element""")])]),
 ("mempool-add-demorgan", ["C08"], "Pool.Add: capacity test written with the operands swapped",
  [("pkg/core/mempool/mem_pool.go", [("if len(mp.verifiedTxes) == mp.capacity {", "if mp.capacity == len(mp.verifiedTxes) {")])]),
 ("trie-rename-locals", ["C10", "C11", "C03"], "trie.go/batch.go: receiver-independent locals renamed",
  [("pkg/core/mpt/batch.go", [rn("sn", "subNode"), rn("pref", "shared")]), ("pkg/core/mpt/trie.go", [rn("newNode", "loadedNode"), rn("result", "stored")])]),
 ("consensus-rename-locals", ["C19"], "consensus.go: locals renamed in verifyBlock/verifyRequest/getBlockWitness",
  [("pkg/consensus/consensus.go", [rn("sigs", "bySigner"), rn("maxBlockSysFee", "feeCap"), rn("fee", "feeSum")])]),
 ("reset-rename-locals", ["C02"], "resetStateInternal/jumpToStateInternal: locals renamed",
  [("pkg/core/blockchain.go", [rn("upperCache", "topLayer"), rn("jumpStageKey", "jumpMarkerKey"), rn("resetStageKey", "resetMarkerKey")])]),
 ("statesync-rename-locals", ["C20"], "statesync module: locals renamed",
  [("pkg/core/statesync/module.go", [rn("header", "knownHeader")])]),
 ("codec-rename-locals", ["C17"], "transaction.go decoders: locals renamed",
  [("pkg/core/transaction/transaction.go", [rn("nattrs", "attrCount"), rn("nsigners", "signerCount"), rn("nscripts", "witnessCount")])]),
 ("vm-rename-execute-locals", ["C12", "C13"], "vm.execute: some arm-local names renamed",
  [("pkg/vm/vm.go", [rn("newCtx", "calleeCtx")])]),
 ("dao-rename-locals", ["C06", "C07", "C09"], "dao.go: locals renamed in HasTransaction/StoreAsTransaction/Seek",
  [("pkg/core/dao/dao.go", [rn("sKey", "signerKey")])]),
 ("accumulator-rewritten-with-or", ["C07", "C06", "C02"], "verifyTxAttributes: `if eq { hasOracle = true }` rewritten as `hasOracle = hasOracle || eq`",
  [("pkg/core/blockchain.go", [("""				if tx.Signers[i].Account.Equals(h) {
					hasOracle = true
				}""", """				hasOracle = hasOracle || tx.Signers[i].Account.Equals(h)""")])]),
 ("queue-len-helper-under-lock", ["C20"], "Queue.Run: the guarded decrement moved into a helper method that is only called with the lock held",
  [("pkg/network/bqueue/queue.go", [("""			if bq.queue[pos] == b {
				bq.queue[pos] = bq.nilQ
				bq.len--
			}""", """			if bq.queue[pos] == b {
				bq.queue[pos] = bq.nilQ
				bq.decLen()
			}"""), ("""// Put enqueues""", """func (bq *Queue[Q]) decLen() {
	bq.len--
}

// Put enqueues""")])]),
 ("statesync-stage-helper-under-lock", ["C20"], "statesync.Module.IsActive: the guarded read moved into a helper called under the read lock",
  [("pkg/core/statesync/module.go", [("""func (s *Module) IsActive() bool {
	s.lock.RLock()
	defer s.lock.RUnlock()
""", """func (s *Module) activeLocked() bool {
	return !(s.syncStage == inactive || (s.syncStage == headersSynced|mptSynced|blocksSynced))
}

func (s *Module) IsActive() bool {
	s.lock.RLock()
	defer s.lock.RUnlock()
	_ = s.activeLocked()
""")])]),
 ("error-assigned-then-checked", ["C06", "C07", "C02"], "verifyAndPoolTx: `if err := f(); err != nil` split into assignment and test",
  [("pkg/core/blockchain.go", [("""	if err := bc.policy.CheckPolicy(bc.dao, t); err != nil {
		// Only one %w can be used.
		return fmt.Errorf("%w: %w", ErrPolicy, err)
	}""", """	policyErr := bc.policy.CheckPolicy(bc.dao, t)
	if policyErr != nil {
		// Only one %w can be used.
		return fmt.Errorf("%w: %w", ErrPolicy, policyErr)
	}""")])]),
 ("twin-statements-swapped", ["C09", "C02"], "PersistPrivate / putChangeSet: the twin statements for mem and stor swapped",
  [("pkg/core/storage/memory_store.go", [("""	maps.Copy(s.mem, puts)
	maps.Copy(s.stor, stores)""", """	maps.Copy(s.stor, stores)
	maps.Copy(s.mem, puts)""")]), ("pkg/core/storage/memcached_store.go", [("keys += len(p.mem) + len(p.stor)", "keys += len(p.stor) + len(p.mem)")])]),
 ("historic-window-nested-guard", ["C03", "C06", "C07", "C02"], "GetTestHistoricVM: the window test written with nested ifs and other local names",
  [("pkg/core/blockchain.go", [("""		if h, mtb := bc.BlockHeight(), bc.GetMaxTraceableBlocks(); h > mtb && b.Index < h-mtb {
			return nil, fmt.Errorf("state for height %d is outdated and removed from the storage", b.Index)
		}""", """		tip, window := bc.BlockHeight(), bc.GetMaxTraceableBlocks()
		if tip > window {
			if b.Index < tip-window {
				return nil, fmt.Errorf("state for height %d is outdated and removed from the storage", b.Index)
			}
		}""")])]),
 ("ledger-guard-split", ["C01"], "Ledger.getTransactionSigners: the combined error/traceability test split into two ifs",
  [("pkg/core/native/ledger.go", [("""	tx, h, err := getTransactionAndHeight(ic.DAO, params[0])
	if err != nil || !l.isTraceableBlock(ic, h) {
		return stackitem.Null{}
	}
	return transaction.SignersToStackItem(tx.Signers)""", """	tx, h, err := getTransactionAndHeight(ic.DAO, params[0])
	if err != nil {
		return stackitem.Null{}
	}
	if !l.isTraceableBlock(ic, h) {
		return stackitem.Null{}
	}
	return transaction.SignersToStackItem(tx.Signers)""")])]),
 ("tally-store-via-local", ["C05", "C01"], "ModifyAccountVotes: the final store goes through a local error variable",
  [("pkg/core/native/native_neo.go", [("""		return d.PutStorageConvertible(n.ID, key, cd)
	}
	return nil
}

func (n *NEO) getCandidates(""", """		putErr := d.PutStorageConvertible(n.ID, key, cd)
		return putErr
	}
	return nil
}

func (n *NEO) getCandidates(""")])]),
 ("isblocked-nil-test-reordered", ["C01", "C05"], "Policy.IsBlocked: the storage fallback written with a local and `nil != item`",
  [("pkg/core/native/policy.go", [("return dao.GetStorageItem(p.ID, key) != nil", "item := dao.GetStorageItem(p.ID, key)\n\t\treturn nil != item")])]),
 ("varint-estimator-as-switch", ["C17"], "the length-prefix estimator written as a tagless switch",
  [("pkg/io/size.go", [("""	if value < 0xFD {
		size = 1 // unit8
	} else if value <= 0xFFFF {
		size = 3 // byte + uint16
	} else {
		size = 5 // byte + uint32
	}""", """	switch {
	case value < 0xFD:
		size = 1 // unit8
	case value <= 0xFFFF:
		size = 3 // byte + uint16
	default:
		size = 5 // byte + uint32
	}""")])]),
 ("merkleblock-rename-count", ["C17"], "MerkleBlock.DecodeBinary: the unsigned count renamed",
  [("pkg/network/payload/merkleblock.go", [rn("count", "n64")])]),
 ("compress-flag-after-body", ["C17"], "tryCompressPayload: the flag is computed in a local and assigned after the body",
  [("pkg/network/message.go", [("""	m.Flags &^= Compressed
	if enableCompression {""", """	flags := m.Flags &^ Compressed
	if enableCompression {"""), ("""					m.Flags |= Compressed
""", """					flags |= Compressed
"""), ("""	m.compressedPayload = compressedPayload
	return nil
}""", """	m.compressedPayload = compressedPayload
	m.Flags = flags
	return nil
}""")])]),
 ("policy-cut-in-helper", ["C19", "C07"], "getVerifiedTx: the policy cut extracted into a helper",
  [("pkg/consensus/consensus.go", [("""	if len(txx) > 0 {
		txx = s.Chain.ApplyPolicyToTxSet(txx)
	}

	res := make([]dbft.Transaction[util.Uint256], len(txx))""", """	txx = s.cutByPolicy(txx)

	res := make([]dbft.Transaction[util.Uint256], len(txx))"""), ("""func (s *service) getValidators(txes ...dbft.Transaction[util.Uint256]) []dbft.PublicKey {""", """func (s *service) cutByPolicy(set []*transaction.Transaction) []*transaction.Transaction {
	if len(set) == 0 {
		return set
	}
	return s.Chain.ApplyPolicyToTxSet(set)
}

func (s *service) getValidators(txes ...dbft.Transaction[util.Uint256]) []dbft.PublicKey {""")])]),
 ("addblock-rename-expected", ["C06", "C20"], "AddBlock: local expectedHeight renamed, lock statements untouched",
  [("pkg/core/blockchain.go", [rn("expectedHeight", "nextIndex")])]),
 ("definesyncstage-rename-locals", ["C20"], "defineSyncStage: the temporary pool and the processed set renamed",
  [("pkg/core/statesync/module.go", [rn("seen", "processed"), rn("nPaths", "known")])]),
 ("triestore-start-reset-nil", ["C10", "C03"], "TrieStore.Seek: the start is reset with nil instead of an empty slice",
  [("pkg/core/mpt/trie_store.go", [("""			fromP = []byte{}
		} else {
			cmp := bytes.Compare(path, fromP)""", """			fromP = nil
		} else {
			cmp := bytes.Compare(path, fromP)"""), ("""				return
			}
			fromP = []byte{}""", """				return
			}
			fromP = nil""")])]),
 ("stateroot-mode-through-local", ["C11", "C03"], "JumpToState: the mode passes through a local",
  [("pkg/core/stateroot/module.go", [("""	s.localHeight.Store(sr.Index)
	s.mpt = mpt.NewTrie(mpt.NewHashNode(sr.Root), s.mode, s.Store)
}

// ResetState""", """	s.localHeight.Store(sr.Index)
	trieMode := s.mode
	s.mpt = mpt.NewTrie(mpt.NewHashNode(sr.Root), trieMode, s.Store)
}

// ResetState""")])]),
 ("loadtoken-two-flag-tests", ["C16"], "LoadToken: the flag test written as two tests joined by ||",
  [("pkg/core/interop/contract/call.go", [("""	if !ctx.GetCallFlags().Has(callflag.ReadStates | callflag.AllowCall) {""", """	if fs := ctx.GetCallFlags(); !fs.Has(callflag.ReadStates) || !fs.Has(callflag.AllowCall) {""")])]),
 ("changeview-guard-swapped", ["C17", "C19"], "changeView.DecodeBinary: operands of the reason test swapped",
  [("pkg/consensus/change_view.go", [("""	if c.reason == dbft.CVTxInvalid || c.reason == dbft.CVTxRejectedByPolicy {
		r.ReadArray(&c.rejectedHashes, block.MaxTransactionsPerBlock)""", """	if dbft.CVTxRejectedByPolicy == c.reason || c.reason == dbft.CVTxInvalid {
		r.ReadArray(&c.rejectedHashes, block.MaxTransactionsPerBlock)""")])]),
 ("recovery-context-assigned-after", ["C17", "C19"], "recoveryMessage.DecodeBinary: the nested message is created with new and the context assigned afterwards",
  [("pkg/consensus/recovery_message.go", [("""		m.prepareRequest = &message{stateRootEnabled: m.stateRootEnabled}""", """		m.prepareRequest = new(message)
		m.prepareRequest.stateRootEnabled = m.stateRootEnabled""")])]),
 ("stackitem-count-unsigned-compare", ["C17"], "stack item decoder: the array count is compared as an unsigned value before the conversion",
  [("pkg/vm/stackitem/serialization.go", [("""		size := int(r.ReadVarUint())
		if size < 0 || size > r.limit {
			r.Err = errTooBigElements
			return nil
		}
		arr := make([]Item, size)""", """		n := r.ReadVarUint()
		if n > uint64(r.limit) {
			r.Err = errTooBigElements
			return nil
		}
		size := int(n)
		arr := make([]Item, size)""")])]),
 ("mapkey-validation-error-local", ["C17"], "stack item decoder: the key validation result kept in a local",
  [("pkg/vm/stackitem/serialization.go", [("""			if err := IsValidMapKey(key); err != nil {
				r.Err = err
				return nil
			}""", """			keyErr := IsValidMapKey(key)
			if keyErr != nil {
				r.Err = keyErr
				return nil
			}""")])]),
 ("flush-height-through-local", ["C11"], "AddMPTBatch: the flush height passes through a local",
  [("pkg/core/stateroot/module.go", [("""	mpt.Flush(index)""", """	h := index
	mpt.Flush(h)""")])]),
 # ---- session 3: variants for the rules of round 4 ----
 ("recordkind-type-switch", ["C10", "C17", "C20"], "Trie.getFromStore refuses the child-only kinds with a type switch (one arm per kind) instead of the Type() comparison",
  [("pkg/core/mpt/trie.go", [("""	if typ := n.Node.Type(); typ == HashT || typ == EmptyT {
		// These are valid as children only, never as a stored node.
		return nil, fmt.Errorf("unexpected node type %d in the storage", typ)
	}

	if t.mode.RC() {""", """	if _, isHash := n.Node.(*HashNode); isHash {
		return nil, errors.New("unexpected hash node in the storage")
	}
	if _, isEmpty := n.Node.(EmptyNode); isEmpty {
		return nil, errors.New("unexpected empty node in the storage")
	}

	if t.mode.RC() {""")])]),
 ("stickyerror-early-return", ["C17", "C07"], "decodeBinaryNoSize: `if br.Err == nil && buf == nil` written as an early return followed by the plain test",
  [("pkg/core/transaction/transaction.go", [("""	if br.Err == nil && buf == nil {
		br.Err = t.createHash()
	}""", """	if br.Err != nil {
		return
	}
	if buf == nil {
		br.Err = t.createHash()
	}""")])]),
 ("extnext-through-local", ["C10", "C03", "C11"], "putBatchIntoExtensionNoPrefix: the child placed under the new extension goes through a local",
  [("pkg/core/mpt/batch.go", [("""		b.Children[key[0]] = t.newSubTrie(key[1:], next, false)""", """		child := next
		b.Children[key[0]] = t.newSubTrie(key[1:], child, false)""")])]),
 ("arraymax-through-local", ["C17"], "nef decoder: the token maximum passed through a local",
  [("pkg/smartcontract/nef/nef.go", [("	r.ReadArray(&n.Tokens, MaxMethodTokens)", "	limit := MaxMethodTokens\n	r.ReadArray(&n.Tokens, limit)")])]),
 ("decodedloop-limit-form", ["C17"], "ProofWithKey decoder: the count compared with a limit before the loop instead of the error test inside it",
  [("pkg/neorpc/result/mpt.go", [("""	sz := r.ReadVarUint()
	for range sz {
		item := r.ReadVarBytes()
		if r.Err != nil {
			return
		}
		p.Proof = append(p.Proof, item)
	}""", """	sz := r.ReadVarUint()
	if sz > 1024 {
		r.Err = base64.CorruptInputError(0)
		return
	}
	for range sz {
		p.Proof = append(p.Proof, r.ReadVarBytes())
	}""")])]),
 ("scopeless-mask-two-steps", ["C04", "C16"], "runtime.LoadScript: the flag mask applied in two statements",
  [("pkg/core/interop/runtime/engine.go", [("	fs = ic.VM.Context().GetCallFlags() & callflag.ReadOnly & fs", "	fs &= callflag.ReadOnly\n	fs = ic.VM.Context().GetCallFlags() & fs")])]),
 ("stagegate-restructured", ["C20"], "handleBlockCmd: the three cases written as early returns in another order",
  [("pkg/network/server.go", [("""	if s.stateSync.IsActive() {
		if !s.stateSync.NeedBlocks() {
			// Headers or MPT data are not in sync yet, the module
			// can't accept blocks (and doesn't know its height).
			return nil
		}
		// Nothing else runs this queue for P2P-based state synchronisation
		// (stateSyncCallBack does it for the NeoFS-based one). It asks the
		// module for its height, which is known since this stage only.
		if s.bSyncQueueRun.CompareAndSwap(false, true) {
			go s.bSyncQueue.Run()
		}
		return s.bSyncQueue.Put(block)
	}
	return s.bQueue.Put(block)""", """	if !s.stateSync.IsActive() {
		return s.bQueue.Put(block)
	}
	if s.stateSync.NeedBlocks() {
		if s.bSyncQueueRun.CompareAndSwap(false, true) {
			go s.bSyncQueue.Run()
		}
		return s.bSyncQueue.Put(block)
	}
	return nil""")])]),
 ("limitscale-explicit-if", ["C12"], "SetGasLimit: the clamp written as an if statement",
  [("pkg/vm/vm.go", [("""		v.gasLimit = min(datoshi, math.MaxInt64/ExecFeeFactorMultiplier) * ExecFeeFactorMultiplier""", """		if datoshi > math.MaxInt64/ExecFeeFactorMultiplier {
			datoshi = math.MaxInt64 / ExecFeeFactorMultiplier
		}
		v.gasLimit = datoshi * ExecFeeFactorMultiplier""")])]),
 ("refshandover-rename", ["C12", "C13"], "RET arm: locals oldEstack/newEstack renamed",
  [("pkg/vm/vm.go", [rn("oldEstack", "calleeStack"), rn("newEstack", "callerStack")])]),
 ("multimap-append-through-local", ["C20"], "defineSyncStage: the per-key append goes through a local",
  [("pkg/core/statesync/module.go", [("""					for hash, paths := range nChildrenPaths {
						childrenPaths[hash] = append(childrenPaths[hash], paths...)
					}""", """					for hash, paths := range nChildrenPaths {
						known := childrenPaths[hash]
						childrenPaths[hash] = append(known, paths...)
					}""")])]),
 ("exactlym-break-in-body", ["C19"], "getBlockWitness: the bound on emitted signatures written as a break in the loop body",
  [("pkg/consensus/consensus.go", [("""	for i, j := 0, 0; i < len(pubs) && j < m; i++ {
		if sig, ok := sigs[pubs[i]]; ok {
			emit.Bytes(buf.BinWriter, sig)
			j++
		}
	}""", """	j := 0
	for i := range pubs {
		if j >= m {
			break
		}
		if sig, ok := sigs[pubs[i]]; ok {
			emit.Bytes(buf.BinWriter, sig)
			j++
		}
	}""")])]),
 ("groups-through-local", ["C15"], "getContractGroups: the groups go through a local before they are returned",
  [("pkg/core/interop/runtime/witness.go", [("	return manifest.Groups(cs.Manifest.Groups), nil", "	groups := manifest.Groups(cs.Manifest.Groups)\n	return groups, nil")])]),
 ("serialize-clone-through-local", ["C17", "C01"], "Std.serialize: the clone goes through a local",
  [("pkg/core/native/std.go", [("	return stackitem.NewByteArray(bytes.Clone(data)) // Serialization context can be reused.", "	own := bytes.Clone(data) // Serialization context can be reused.\n	return stackitem.NewByteArray(own)")])]),
 ("gc-boundary-swapped", ["C11", "C10"], "stateroot GC: the height comparison written with swapped operands",
  [("pkg/core/stateroot/module.go", [("			if h <= index {", "			if index >= h {")])]),
 ("basefromstore-swapped", ["C11", "C10"], "updateRefCount: the zero test of the cached base written with swapped operands",
  [("pkg/core/mpt/trie.go", [("""	cnt := node.initial
	if cnt == 0 {""", """	cnt := node.initial
	if 0 == cnt {""")])]),
 ("modpow-nested-ifs", ["C13", "C12"], "MODPOW: the three-way condition of the sign correction written as nested ifs",
  [("pkg/vm/vm.go", [("""			if base.Sign() < 0 && exponent.Bit(0) == 1 && res.Sign() != 0 {
				absModulus := new(big.Int).Abs(modulus)
				res.Sub(res, absModulus)
			}""", """			if base.Sign() < 0 && exponent.Bit(0) == 1 {
				if res.Sign() != 0 {
					absModulus := new(big.Int).Abs(modulus)
					res.Sub(res, absModulus)
				}
			}""")])]),
 ("invocation-decode-literal", ["C17"], "ContractInvocation.UnmarshalJSON: the fields restored with one composite literal",
  [("pkg/core/state/contract_invocation.go", [("""	ci.Method = aux.Method
	ci.Hash = aux.Hash
	ci.ArgumentsCount = aux.ArgumentsCount
	ci.Truncated = aux.Truncated
	ci.Arguments = args
	ci.argumentsBytes = argBytes
	return nil""", """	*ci = ContractInvocation{
		Hash:           aux.Hash,
		Method:         aux.Method,
		Arguments:      args,
		argumentsBytes: argBytes,
		ArgumentsCount: aux.ArgumentsCount,
		Truncated:      aux.Truncated,
	}
	return nil""")])]),
 ("encodepure-rename", ["C17"], "AppExecResult encoder: the local holding the marked state renamed",
  [("pkg/core/state/notification_event.go", [rn("vmState", "wireState")])]),
 ("threshold-rename", ["C19", "C06"], "newBlockFromContext: the validators local renamed",
  [("pkg/consensus/consensus.go", [("	var validators = s.Chain.ComputeNextBlockValidators()\n	script, err := smartcontract.CreateDefaultMultiSigRedeemScript(validators)", "	var nextVals = s.Chain.ComputeNextBlockValidators()\n	script, err := smartcontract.CreateDefaultMultiSigRedeemScript(nextVals)")])]),
 # ---- fourth batch: edits aimed at the rules of round 5 ----
 ("r5-trie-curr-renamed", ["C11", "C10"], "batch.go/trie.go: the node parameter `curr` of the structural functions renamed",
  [("pkg/core/mpt/batch.go", [rn("curr", "node0")]), ("pkg/core/mpt/trie.go", [rn("curr", "node0")])]),
 ("r5-billet-flag-renamed", ["C10", "C20"], "Billet.keepExpanded renamed",
  [("pkg/core/mpt/billet.go", [rn("keepExpanded", "leaveAsIs")]), ("pkg/core/mpt/trie.go", [rn("keepExpanded", "leaveAsIs")])]),
 ("r5-bigint-locals-renamed", ["C13"], "bigint.ToPreallocatedBytes: locals carry/nonZero renamed",
  [("pkg/encoding/bigint/bigint.go", [rn("carry", "borrowOrCarry"), rn("nonZero", "anyBit"), ("bits := n.Bits()", "bits := n.Bits() // the magnitude, least significant word first")])]),
 ("r5-equal-budget-renamed", ["C13", "C12"], "equalStruct: budget parameter renamed and its test written the other way round",
  [("pkg/vm/stackitem/item.go", [rn("maxComparableSize", "sizeBudget"), ("if *sizeBudget == 0 {", "if 0 == *sizeBudget {")])]),
 ("r5-assertmsg-local-renamed", ["C13", "C12"], "ASSERTMSG arm: the message local renamed",
  [("pkg/vm/vm.go", [("		msg := v.estack.Pop().String()\n		if !v.estack.Pop().Bool() {\n			panic(fmt.Sprintf(\"%s is executed with false result. Reason: %s\", op, msg))", "		reason := v.estack.Pop().String()\n		if !v.estack.Pop().Bool() {\n			panic(fmt.Sprintf(\"%s is executed with false result. Reason: %s\", op, reason))")])]),
 ("r5-whitelist-param-renamed", ["C19"], "updateExtensibleWhitelist: the height parameter renamed and copied into a local first",
  [("pkg/core/blockchain.go", [("func (bc *Blockchain) updateExtensibleWhitelist(height uint32) error {\n	updateCommittee := bc.config.ShouldUpdateCommitteeAt(height)", "func (bc *Blockchain) updateExtensibleWhitelist(height uint32) error {\n	stored := height\n	updateCommittee := bc.config.ShouldUpdateCommitteeAt(stored)")])]),
 ("r5-relevance-checks-reordered", ["C06", "C07", "C19"], "IsTxStillRelevant: the fee test moved before the policy test, fee floor computed into a local",
  [("pkg/core/blockchain.go", [("""	if bc.policy.CheckPolicy(bc.dao, t) != nil {
		return false
	}
	if t.NetworkFee < int64(t.Size())*bc.FeePerByte()+bc.CalculateAttributesFee(t) {
		return false
	}""", """	floor := int64(t.Size())*bc.FeePerByte() + bc.CalculateAttributesFee(t)
	if t.NetworkFee < floor {
		return false
	}
	if policyErr := bc.policy.CheckPolicy(bc.dao, t); policyErr != nil {
		return false
	}""")])]),
 ("r5-block-hash-sets-renamed", ["C06", "C19"], "AddBlock / verifyBlock: the sets of in-block hashes renamed",
  [("pkg/core/blockchain.go", [rn("seen", "blockHashes")]), ("pkg/consensus/consensus.go", [rn("inBlock", "proposed")])]),
 ("r5-statesync-store-tx-via-local", ["C20"], "statesync.AddBlock: the transaction loop binds the index to a local (the nil result stays nil)",
  [("pkg/core/statesync/module.go", [("		if err := cache.StoreAsTransaction(tx, block.Index, nil); err != nil {", "		idx := block.Index\n		if err := cache.StoreAsTransaction(tx, idx, nil); err != nil {")])]),
 ("r5-restorenode-paths-local", ["C11", "C20"], "statesync.restoreNode: the accumulated children paths go through a local before being stored back",
  [("pkg/core/statesync/module.go", [("			childrenPaths[h] = append(childrenPaths[h], paths...) // it's OK to have duplicates, they'll be handled by mempool", "			merged := append(childrenPaths[h], paths...) // it's OK to have duplicates, they'll be handled by mempool\n			childrenPaths[h] = merged")])]),
 ("r5-putbatchintoleaf-hash-captured", ["C11", "C10"], "putBatchIntoLeaf: the released node's hash and bytes captured in locals first",
  [("pkg/core/mpt/batch.go", [("	t.removeRef(curr.Hash(), curr.Bytes())\n", "	oldHash, oldBytes := curr.Hash(), curr.Bytes()\n	t.removeRef(oldHash, oldBytes)\n")])]),
 # ---- fifth batch: edits aimed at the rules written after round 5 ----
 ("r6-remove-detach-via-helper-local", ["C12", "C13"], "REMOVE (map arm): the removed entry's key and value bound to locals before Drop",
  [("pkg/vm/vm.go", [("""				removed := t.Value().([]stackitem.MapElement)[index]
				t.Drop(index)
				if t.IsReferenced() {
					v.refs.Remove(removed.Key)
					v.refs.Remove(removed.Value)
				}""", """				entry := t.Value().([]stackitem.MapElement)[index]
				oldKey, oldValue := entry.Key, entry.Value
				t.Drop(index)
				if t.IsReferenced() {
					v.refs.Remove(oldKey)
					v.refs.Remove(oldValue)
				}""")])]),
 ("r6-calledby-zero-guard-split", ["C15"], "ConditionCalledByContract.Match: the zero-hash guard written as an early return",
  [("pkg/core/transaction/witness_condition.go", [("""	return !calling.Equals(util.Uint160{}) && util.Uint160(*c).Equals(calling), nil""", """	if calling.Equals(util.Uint160{}) {
		return false, nil
	}
	return util.Uint160(*c).Equals(calling), nil""")])]),
 ("r6-conflict-dedupe-by-hash-set", ["C08"], "checkTxConflicts: locals renamed (the membership tests stay on the slice)",
  [("pkg/core/mempool/mem_pool.go", [rn("conflictsToBeRemoved", "toReplace"), rn("conflictingFee", "feeToOutbid")])]),
 ("r6-blockaccount-continuation-renamed", ["C01", "C05"], "BlockAccountInternalDeferrable: continuation and its locals renamed",
  [("pkg/core/native/policy.go", [("	continuation := func() {\n		// The position is taken here", "	afterRevoke := func() {\n		// The position is taken here"), ("p.NEO.RevokeVotesDeferrable(ic, hash, continuation)", "p.NEO.RevokeVotesDeferrable(ic, hash, afterRevoke)"), ("		if !continuationScheduled { // ignore error, as in the reference.\n			continuation()\n		}\n		return\n	}\n\n	continuation()\n}", "		if !continuationScheduled { // ignore error, as in the reference.\n			afterRevoke()\n		}\n		return\n	}\n\n	afterRevoke()\n}")])]),
 ("r6-transferlog-owned-renamed", ["C02", "C09"], "TokenTransferLog: the ownership flag renamed and tested the other way round",
  [("pkg/core/state/tokens.go", [rn("owned", "private"), ("	if !lg.private {\n		// Never write", "	if lg.private == false {\n		// Never write")])]),
 ("r6-seek-snapshot-view-renamed", ["C09", "C02"], "storage: the snapshot view type and the lower-layer locals renamed",
  [("pkg/core/storage/memcached_store.go", [rn("seekSnapshot", "frozenView"), rn("lps", "belowStore"), rn("lmem", "belowItems")])]),
 ("r6-jump-genesis-guard-local", ["C02", "C20"], "jumpToStateInternal: the page test bound to a local first",
  [("pkg/core/blockchain.go", [("			if bc.HeaderHeight()+1 >= headerBatchCount {\n				_, err = cache.DeleteBlock(genesisBlock.Hash())", "			pageComplete := bc.HeaderHeight()+1 >= headerBatchCount\n			if pageComplete {\n				_, err = cache.DeleteBlock(genesisBlock.Hash())")])]),
 ("r6-getvarsize-arm-reshaped", ["C17"], "io.GetVarSize: the pointer-receiver arm takes the interface type into a local first",
  [("pkg/io/size.go", [("				if reflect.PointerTo(v.Type().Elem()).Implements(reflect.TypeFor[Serializable]()) {", "				serT := reflect.TypeFor[Serializable]()\n				if reflect.PointerTo(v.Type().Elem()).Implements(serT) {")])]),
 ("r6-extension-decoder-guard-reordered", ["C10", "C17"], "ExtensionNode decoder: the empty-child test written with the operands swapped and the error made first",
  [("pkg/core/mpt/extension.go", [("	if r.Err == nil && isEmpty(no.Node) {", "	if isEmpty(no.Node) && r.Err == nil {")])]),
 ("r6-inblock-conflict-check-helper", ["C06", "C19"], "AddBlock: the conflict hash bound to a differently named local, message changed",
  [("pkg/core/blockchain.go", [("				h := attr.Value.(*transaction.Conflicts).Hash\n				if _, ok := seen[h]; ok {\n					return fmt.Errorf(\"invalid block: transaction %s conflicts with transaction %s of the same block\", tx.Hash().StringLE(), h.StringLE())", "				named := attr.Value.(*transaction.Conflicts).Hash\n				if _, found := seen[named]; found {\n					return fmt.Errorf(\"invalid block: %s and %s exclude each other\", tx.Hash().StringLE(), named.StringLE())")])]),
 # ---- batch 6: the rules written from the defect reports of round 6 ----
 ("r7-getproof-bound-swapped", ["C10", "C03"], "GetProof: the key length test with the operands swapped",
  [("pkg/core/mpt/proof.go", [("""	if len(key) > MaxKeyLength {""", """	if MaxKeyLength < len(key) {""")])]),
 ("r7-handlechainblock-early-return", ["C19"], "handleChainBlock: the index test as an early return",
  [("pkg/consensus/consensus.go", [("""	if b.Index >= s.dbft.BlockIndex {
		s.log.Debug("new block in the chain",
			zap.Uint32("dbft index", s.dbft.BlockIndex),
			zap.Uint32("chain index", s.Chain.BlockHeight()))
		s.postBlock(b)
		s.dbft.Reset(b.Timestamp * nsInMs)
	}
}""", """	if b.Index < s.dbft.BlockIndex {
		return
	}
	s.log.Debug("new block in the chain",
		zap.Uint32("dbft index", s.dbft.BlockIndex),
		zap.Uint32("chain index", s.Chain.BlockHeight()))
	s.postBlock(b)
	s.dbft.Reset(b.Timestamp * nsInMs)
}""")])]),
 ("r7-ontransaction-early-return", ["C19"], "OnTransaction: the activity test as an early return",
  [("pkg/consensus/consensus.go", [("""	if s.dbft != nil && s.started.Load() {
		s.transactions <- tx
	}
}""", """	if s.dbft == nil || !s.started.Load() {
		return
	}
	s.transactions <- tx
}""")])]),
 ("r7-getwithpath-copy-by-append", ["C10", "C03"], "getWithPath: the path copied with append to a nil slice instead of slices.Clone",
  [("pkg/core/mpt/trie.go", [("""			// path is shorter than prefix, stop seeking
			return curr, n.next, slices.Clone(n.key), nil""", """			// path is shorter than prefix, stop seeking
			return curr, n.next, append([]byte(nil), n.key...), nil""")])]),
 ("r7-traverse-leaf-guard-reordered", ["C10", "C03", "C09"], "Billet.traverse: the disjuncts of the visitor guard reordered",
  [("pkg/core/mpt/billet.go", [("""	if len(from) == 0 || (backwards && isLeaf) {""", """	if (isLeaf && backwards) || len(from) == 0 {""")])]),
 ("r7-headerverbose-embedded-selector", ["C17"], "getHeaderVerbose: the flag set through the embedded field's name",
  [("pkg/rpcclient/rpc.go", [("""	resp.StateRootEnabled = sr
	if err := c.performRequest("getblockheader", params, resp); err != nil {""", """	resp.Header.StateRootEnabled = sr
	if err := c.performRequest("getblockheader", params, resp); err != nil {""")])]),
 ("r7-expectedheadersize-renamed", ["C17"], "GetExpectedHeaderSize: locals renamed",
  [("pkg/core/block/header.go", [("re", r"\binvLen\b", "sigsLen"), ("re", r"\bverLen\b", "keysLen")])]),
 ("r7-marshaljson-typeswitch", ["C17"], "ContractInvocation.MarshalJSON: the kind test as a type switch",
  [("pkg/core/state/contract_invocation.go", [("""		var ok bool
		args, ok = si.(*stackitem.Array)
		if !ok {
			return nil, fmt.Errorf("failed to convert invocation arguments of type %s to array", si.Type().String())
		}""", """		switch a := si.(type) {
		case *stackitem.Array:
			args = a
		default:
			return nil, fmt.Errorf("failed to convert invocation arguments of type %s to array", si.Type().String())
		}""")])]),
 ("r7-hastryblock-two-ifs", ["C04", "C12"], "ContractHasTryBlock: the condition split into two ifs",
  [("pkg/vm/vm.go", [("""			if eCtx.State == eTry || (eCtx.State == eCatch && eCtx.HasFinally()) {
				return true
			}""", """			if eCtx.State == eTry {
				return true
			}
			if eCtx.State == eCatch && eCtx.HasFinally() {
				return true
			}""")])]),
 ("r7-invocation-caller-through-local", ["C15", "C06"], "InitVerificationContext: the zero caller through a local",
  [("pkg/core/blockchain.go", [("""		ic.VM.LoadScriptWithCaller(witness.InvocationScript, util.Uint160{}, callflag.NoneFlag)""", """		var nobody util.Uint160
		ic.VM.LoadScriptWithCaller(witness.InvocationScript, nobody, callflag.NoneFlag)""")])]),
 ("r7-headerhashes-offset-local", ["C02", "C06"], "HeaderHashes.init: the position inside the page through a local",
  [("pkg/core/headerhashes.go", [("""			h.latest = h.latest[:currHeaderHeight-h.storedHeaderCount-uint32(len(headers))]""", """			inPage := currHeaderHeight - h.storedHeaderCount
			h.latest = h.latest[:inPage-uint32(len(headers))]""")])]),
 ("r7-pool-verify-explicit-unlock", ["C08"], "Pool.Verify: explicit unlock instead of defer",
  [("pkg/core/mempool/mem_pool.go", [("""	mp.lock.Lock()
	defer mp.lock.Unlock()
	_, err := mp.checkTxConflicts(tx, feer)
	return err == nil""", """	mp.lock.Lock()
	_, err := mp.checkTxConflicts(tx, feer)
	mp.lock.Unlock()
	return err == nil""")])]),
 ("r7-historicvm-ms-switch", ["C03", "C01"], "GetTestHistoricVM: the block time chosen with if/else",
  [("pkg/core/blockchain.go", [("""		msPerBlock = uint32(bc.config.TimePerBlock.Milliseconds())
	)
	if bc.IsHardforkEnabled(&hf, b.Index-1) {
		msPerBlock = bc.policy.GetMillisecondsPerBlockInternal(dTrie)
	}""", """		msPerBlock uint32
	)
	if bc.IsHardforkEnabled(&hf, b.Index-1) {
		msPerBlock = bc.policy.GetMillisecondsPerBlockInternal(dTrie)
	} else {
		msPerBlock = uint32(bc.config.TimePerBlock.Milliseconds())
	}""")])]),
 ("r7-scopesfromstring-validate-local", ["C15", "C17"], "ScopesFromString: the validator's results through locals",
  [("pkg/core/transaction/witness_scope.go", [("""	return ScopesFromByte(byte(result))
}""", """	res, err := ScopesFromByte(byte(result))
	return res, err
}""")])]),
 ("r7-getcommits-view-first", ["C17", "C19"], "recoveryMessage.GetCommits: the assignments reordered",
  [("pkg/consensus/recovery_message.go", [("""		cc.message.ViewNumber = c.ViewNumber
		cc.message.ValidatorIndex = c.ValidatorIndex""", """		cc.message.ValidatorIndex = c.ValidatorIndex
		cc.message.ViewNumber = c.ViewNumber""")])]),
 # ---- batch 7: the rules written in round 7 ----
 ("r8-removeconflicts-slices-delete", ["C08"], "removeConflictsOf: the one-element splice written with slices.Delete",
  [("pkg/core/mempool/mem_pool.go", [("""				mp.conflicts[conflictsHash] = append(mp.conflicts[conflictsHash][:i], mp.conflicts[conflictsHash][i+1:]...)
				break""", """				mp.conflicts[conflictsHash] = slices.Delete(mp.conflicts[conflictsHash], i, i+1)
				break""")])]),
 ("r8-tryaddfee-check-first", ["C08", "C07"], "tryAddSendersFee: the needCheck branch inverted",
  [("pkg/core/mempool/mem_pool.go", [("""	if needCheck {
		newFeeSum, err := checkBalance(tx, payerFee)
		if err != nil {
			return false
		}
		payerFee.feeSum = newFeeSum
	} else {
		payerFee.feeSum.AddUint64(&payerFee.feeSum, uint64(tx.SystemFee+tx.NetworkFee))
	}""", """	if !needCheck {
		payerFee.feeSum.AddUint64(&payerFee.feeSum, uint64(tx.SystemFee+tx.NetworkFee))
	} else {
		newFeeSum, err := checkBalance(tx, payerFee)
		if err != nil {
			return false
		}
		payerFee.feeSum = newFeeSum
	}""")])]),
 ("r8-slotstore-release-first", ["C12", "C13"], "Slot.store: the old content read into a local before the pop",
  [("pkg/vm/slot.go", [("""	item := stack.popNoRef().Item()
	refs.Remove(s[i])
	s[i] = item""", """	old := s[i]
	item := stack.popNoRef().Item()
	refs.Remove(old)
	s[i] = item""")])]),
 ("r8-seekgc-defer-unlock", ["C09"], "MemoryStore.SeekGC: the unlock deferred",
  [("pkg/core/storage/memory_store.go", [("""	s.mut.Lock()
	// We still need to perform normal seek, some GC operations can be""", """	s.mut.Lock()
	defer s.mut.Unlock()
	// We still need to perform normal seek, some GC operations can be"""), ("""	}, noop, noop)
	s.mut.Unlock()
	return nil""", """	}, noop, noop)
	return nil""")])]),
 ("r8-loadscript-flags-two-steps", ["C15", "C16"], "LoadScript: the flags narrowed in two statements",
  [("pkg/core/interop/runtime/engine.go", [("""	fs = ic.VM.Context().GetCallFlags() & callflag.ReadOnly & fs""", """	fs &= callflag.ReadOnly
	fs &= ic.VM.Context().GetCallFlags()""")])]),
 ("r8-addmptbatch-pointer-copy", ["C11", "C02", "C10"], "AddMPTBatch: the copy named differently",
  [("pkg/core/stateroot/module.go", [("re", r"\bmpt := \*s\.mpt\n\tmpt\.Store = cache\n\tif _, err := mpt\.PutBatch\(b\); err != nil \{\n\t\treturn nil, nil, err\n\t\}\n\tmpt\.Flush\(index\)\n\tsr := &state\.MPTRoot\{\n\t\tIndex: index,\n\t\tRoot:  mpt\.StateRoot\(\),\n\t\}\n\ts\.addLocalStateRoot\(cache, sr\)\n\treturn &mpt, sr, nil", "tr := *s.mpt\n\ttr.Store = cache\n\tif _, err := tr.PutBatch(b); err != nil {\n\t\treturn nil, nil, err\n\t}\n\ttr.Flush(index)\n\tsr := &state.MPTRoot{\n\t\tIndex: index,\n\t\tRoot:  tr.StateRoot(),\n\t}\n\ts.addLocalStateRoot(cache, sr)\n\treturn &tr, sr, nil")])]),
 ("r8-jump-bound-swapped", ["C13", "C12"], "Context.Jump: the bound test with swapped operands",
  [("pkg/smartcontract/scparser/context.go", [("""	if pos < 0 || pos >= len(c.prog) {
		panic("instruction offset is out of range")""", """	if len(c.prog) <= pos || pos < 0 {
		panic("instruction offset is out of range")""")])]),
 ("r8-initslot-guard-split", ["C13", "C12"], "INITSLOT: the double-initialisation guard as one test per slot",
  [("pkg/vm/vm.go", [("""		if ctx.local != nil || ctx.arguments != nil {
			panic("already initialized")
		}
		if parameter[0] == 0 && parameter[1] == 0 {""", """		if ctx.arguments != nil || ctx.local != nil {
			panic("already initialized")
		}
		if parameter[1] == 0 && parameter[0] == 0 {""")])]),
 ("r8-istxrelevant-recheck-demorgan", ["C06", "C07"], "IsTxStillRelevant: the re-verification test written positively",
  [("pkg/core/blockchain.go", [("""		if !scparser.IsStandardContract(t.Scripts[i].VerificationScript) {
			recheckWitness = true
			break
		}""", """		if scparser.IsStandardContract(t.Scripts[i].VerificationScript) {
			continue
		}
		recheckWitness = true
		break""")])]),
 ("r8-getproofmode-local", ["C03", "C10", "C11"], "GetStateProof: the masked mode through a local",
  [("pkg/core/stateroot/module.go", [("re", r"func \(s \*Module\) GetStateProof\(root util\.Uint256, key \[\]byte\) \(\[\]\[\]byte, error\) \{\n", "func (s *Module) GetStateProof(root util.Uint256, key []byte) ([][]byte, error) {\n\treadMode := s.mode &^ mpt.ModeGCFlag\n\t_ = readMode\n")])]),
 ("r8-multisig-close-defer-func", ["C12"], "CheckMultisigPar: the deferred close inside a closure",
  [("pkg/vm/vm.go", [("""	defer close(tasks)
	for range workerCount {""", """	defer func() { close(tasks) }()
	for range workerCount {""")])]),
 ("r8-verifyblock-pooled-local", ["C19", "C07", "C06"], "verifyBlock: the pooled test bound to a local",
  [("pkg/consensus/consensus.go", [("""		if isPooledAsIs(mainPool, tx) {
			err = pool.Add(tx, s.Chain)""", """		pooledAsIs := isPooledAsIs(mainPool, tx)
		if pooledAsIs {
			err = pool.Add(tx, s.Chain)""")])]),
 ("r8-server-start-queue-order", ["C20"], "Server.Start: the queues started in another order",
  [("pkg/network/server.go", [("""	go s.bQueue.Run()
	go s.bFetcherQueue.Run()
	if s.NeoFSBlockFetcherCfg.Enabled""", """	go s.bFetcherQueue.Run()
	go s.bQueue.Run()
	if s.NeoFSBlockFetcherCfg.Enabled""")])]),
 ("r8-tojson-abs-cmp-var", ["C17"], "toJSON: the limit bound to a local",
  [("pkg/vm/stackitem/json.go", [("""		if it.Big().CmpAbs(big.NewInt(MaxAllowedInteger)) == 1 {""", """		limit := big.NewInt(MaxAllowedInteger)
		if it.Big().CmpAbs(limit) == 1 {""")])]),
 # batch 8: variants for the rules of round 8
 ("r9-getprivate-cache-local", ["C04", "C01"], "GetPrivate: the empty cache map through a local",
  [("pkg/core/dao/dao.go", [("""	d.nativeCache = make(map[int32]NativeContractCache)
	return d""", """	emptyCaches := make(map[int32]NativeContractCache)
	d.nativeCache = emptyCaches
	return d""")])]),
 ("r9-persistnativecache-inline", ["C04", "C01"], "persistNativeCache: the lower layer named inline",
  [("pkg/core/dao/dao.go", [("""	lower := dao.nativeCachePS
	maps.Copy(lower.nativeCache, dao.nativeCache)""", """	maps.Copy(dao.nativeCachePS.nativeCache, dao.nativeCache)""")])]),
 ("r9-getcache-copy-inline", ["C04", "C01"], "getCache: the copy stored without a local",
  [("pkg/core/dao/dao.go", [("""			cp := v.Copy()
			dao.nativeCache[k] = cp
			return cp""", """			dao.nativeCache[k] = v.Copy()
			return dao.nativeCache[k]""")])]),
 ("r9-newinteropctx-fees-merged", ["C04", "C01", "C07"], "newInteropContext: the two fee lookups under one test",
  [("pkg/core/blockchain.go", [("""		baseExecFee = bc.policy.GetExecFeeFactorInternal(d)
	}
	baseStorageFee := int64(native.DefaultStoragePrice) * vm.ExecFeeFactorMultiplier
	if block == nil || block.Index != 0 {
		// Use provided dao instead of Blockchain's one to fetch possible StoragePrice
		// changes that were not yet persisted to Blockchain's dao.
		baseStorageFee = bc.policy.GetStoragePriceInternal(d)
	}""", """		baseExecFee = bc.policy.GetExecFeeFactorInternal(d)
	}
	baseStorageFee := int64(native.DefaultStoragePrice) * vm.ExecFeeFactorMultiplier
	if notGenesis := block == nil || block.Index != 0; notGenesis {
		baseStorageFee = bc.policy.GetStoragePriceInternal(d)
	}""")])]),
 ("r9-posttransfer-skip-split", ["C05", "C16"], "postTransfer: the two reasons to skip the callback tested separately",
  [("pkg/core/native/native_nep17.go", [("""	if to == nil || !callOnPayment {
		continuation()
		return
	}""", """	if to == nil {
		continuation()
		return
	}
	if !callOnPayment {
		continuation()
		return
	}""")])]),
 ("r9-feepair-local", ["C08"], "checkTxConflicts: the released fee through a local",
  [("pkg/core/mempool/mem_pool.go", [("""			expectedPayerFee.feeSum.SubUint64(&expectedPayerFee.feeSum, uint64(conflictingTx.SystemFee+conflictingTx.NetworkFee))""", """			released := uint64(conflictingTx.SystemFee + conflictingTx.NetworkFee)
			expectedPayerFee.feeSum.SubUint64(&expectedPayerFee.feeSum, released)""")])]),
 ("r9-pow-exp-two-tests", ["C12", "C13"], "POW: the fits test and the bound as two statements",
  [("pkg/vm/vm.go", [("""		if ei := exp.Uint64(); !exp.IsUint64() || ei > maxSHLArg {
			panic("invalid exponent")
		}""", """		if !exp.IsUint64() {
			panic("invalid exponent")
		}
		if exp.Uint64() > maxSHLArg {
			panic("invalid exponent")
		}""")])]),
 ("r9-reversetop-separate-ifs", ["C13", "C12"], "Stack.ReverseTop: the else-if chain as separate tests",
  [("pkg/vm/stack.go", [("""	if n < 0 {
		return errors.New("negative index")
	} else if n > l {
		return errors.New("too big index")
	} else if n <= 1 {
		return nil
	}

	slices.Reverse(s.elems[l-n : l])""", """	if n < 0 {
		return errors.New("negative index")
	}
	if l < n {
		return errors.New("too big index")
	}
	if n <= 1 {
		return nil
	}

	slices.Reverse(s.elems[l-n : l])""")])]),
 ("r9-pickitem-bound-swapped", ["C13", "C12"], "PICKITEM on bytes: the bound test with swapped operands",
  [("pkg/vm/vm.go", [("""			arr := obj.Bytes()
			if index < 0 || index >= len(arr) {
				msg := fmt.Sprintf("The value %d is out of range.", index)
				v.throw(stackitem.NewByteArray([]byte(msg)))
				return
			}""", """			arr := obj.Bytes()
			if index < 0 || len(arr) <= index {
				msg := fmt.Sprintf("The value %d is out of range.", index)
				v.throw(stackitem.NewByteArray([]byte(msg)))
				return
			}""")])]),
 ("r9-checkscope-one-condition", ["C15"], "checkScope: the CustomContracts bit and the list in one condition",
  [("pkg/core/interop/runtime/witness.go", [("""			if c.Scopes&transaction.CustomContracts != 0 {
				currentScriptHash := ic.VM.GetCurrentScriptHash()
				if slices.Contains(c.AllowedContracts, currentScriptHash) {
					return true, nil
				}
			}""", """			if c.Scopes&transaction.CustomContracts != 0 && slices.Contains(c.AllowedContracts, ic.VM.GetCurrentScriptHash()) {
				return true, nil
			}""")])]),
 ("r9-oracle-originaltx-local", ["C15"], "Oracle.RequestInternal: the original transaction through a local",
  [("pkg/core/native/oracle.go", [("""	req := &state.OracleRequest{
		OriginalTxID:     o.getOriginalTxID(ic.DAO, ic.Tx),""", """	origin := o.getOriginalTxID(ic.DAO, ic.Tx)
	req := &state.OracleRequest{
		OriginalTxID:     origin,""")])]),
 ("r9-neo-initcache-next-local", ["C19", "C01"], "NEO.InitializeCache: the next height through a local",
  [("pkg/core/native/native_neo.go", [("""	if n.cfg.ShouldUpdateCommitteeAt(blockHeight + 1) {
		var numOfCNs = n.cfg.GetNumOfCNs(blockHeight + 1)
		err := n.updateCachedNewEpochValues(d, cache, blockHeight, numOfCNs)""", """	nextHeight := blockHeight + 1
	if n.cfg.ShouldUpdateCommitteeAt(nextHeight) {
		var numOfCNs = n.cfg.GetNumOfCNs(nextHeight)
		err := n.updateCachedNewEpochValues(d, cache, blockHeight, numOfCNs)""")])]),
 ("r9-extverify-budget-spelled", ["C19"], "extensibleVerifyMaxGAS spelled as a product",
  [("pkg/network/extpool/pool.go", [("""const extensibleVerifyMaxGAS = 6000000""", """const extensibleVerifyMaxGAS = 6 * 1000000""")])]),
 ("r9-statesync-addblock-index-local", ["C20", "C02"], "statesync.AddBlock: the block's index through a local",
  [("pkg/core/statesync/module.go", [("""	for _, tx := range block.Transactions {
		if err := cache.StoreAsTransaction(tx, block.Index, nil); err != nil {""", """	height := block.Index
	for _, tx := range block.Transactions {
		if err := cache.StoreAsTransaction(tx, height, nil); err != nil {""")])]),
 ("r9-addmptnodes-restore-init-form", ["C20", "C03"], "AddMPTNodes: the restoring call in the if's init statement",
  [("pkg/core/statesync/module.go", [("""		nodesErr = s.restoreNode(n.Node)
		if nodesErr != nil {
			break
		}""", """		if nodesErr = s.restoreNode(n.Node); nodesErr != nil {
			break
		}""")])]),
 ("r9-handleblockcmd-needblocks-local", ["C20"], "handleBlockCmd: the module's answer bound to a local",
  [("pkg/network/server.go", [("""		if !s.stateSync.NeedBlocks() {
			// Headers or MPT data are not in sync yet, the module
			// can't accept blocks (and doesn't know its height).
			return nil
		}""", """		blockStage := s.stateSync.NeedBlocks()
		if !blockStage {
			return nil
		}""")])]),
 # batch 9: variants for the rules of round 9
 ("r10-removestale-own-hash-local", ["C08", "C07"], "RemoveStale: the transaction's own hash through a local",
  [("pkg/core/mempool/mem_pool.go", [("""				mp.conflicts[hash] = append(mp.conflicts[hash], itm.txn.Hash())""", """				own := itm.txn.Hash()
				mp.conflicts[hash] = append(mp.conflicts[hash], own)""")])]),
 ("r10-newsubtrie-child-local", ["C11", "C10"], "putBatchIntoExtensionNoPrefix: the old child through a local",
  [("pkg/core/mpt/batch.go", [("""		b.Children[key[0]] = t.newSubTrie(key[1:], next, false)""", """		oldChild := next
		b.Children[key[0]] = t.newSubTrie(key[1:], oldChild, false)""")])]),
 ("r10-boltseekgc-keep-first", ["C09", "C02"], "BoltDBStore.SeekGC: the keep answer handled by an early return",
  [("pkg/core/storage/boltdb_store.go", [("""		keep, cont := keepCont(k, v)
		if !keep {
			if err := c.Delete(); err != nil {
				return false, err
			}
		}
		return cont, nil""", """		keep, cont := keepCont(k, v)
		if keep {
			return cont, nil
		}
		if err := c.Delete(); err != nil {
			return false, err
		}
		return cont, nil""")])]),
 ("r10-performseek-clone-locals", ["C09"], "performSeek: the clones bound to locals first",
  [("pkg/core/storage/memcached_store.go", [("""		kvPs := KeyValue{
			Key:   bytes.Clone(k),
			Value: bytes.Clone(v),
		}""", """		ownKey, ownValue := bytes.Clone(k), bytes.Clone(v)
		kvPs := KeyValue{
			Key:   ownKey,
			Value: ownValue,
		}""")])]),
 ("r10-samewitness-two-steps", ["C06", "C07", "C19"], "sameWitness: the two scripts compared in two statements",
  [("pkg/core/blockchain.go", [("""	return bytes.Equal(a.InvocationScript, b.InvocationScript) && bytes.Equal(a.VerificationScript, b.VerificationScript)""", """	if !bytes.Equal(a.InvocationScript, b.InvocationScript) {
		return false
	}
	return bytes.Equal(a.VerificationScript, b.VerificationScript)""")])]),
 ("r10-signers-unique-by-set", ["C06", "C07", "C17"], "Transaction.isValid: signer uniqueness by a set",
  [("pkg/core/transaction/transaction.go", [("""	for i := range t.Signers {
		for j := i + 1; j < len(t.Signers); j++ {
			if t.Signers[i].Account.Equals(t.Signers[j].Account) {
				return ErrNonUniqueSigners
			}
		}
	}""", """	seenSigners := make(map[util.Uint160]struct{}, len(t.Signers))
	for i := range t.Signers {
		if _, dup := seenSigners[t.Signers[i].Account]; dup {
			return ErrNonUniqueSigners
		}
		seenSigners[t.Signers[i].Account] = struct{}{}
	}""")])]),
 ("r10-verifyproof-range-value", ["C03", "C10"], "VerifyProof: the loop over the elements themselves",
  [("pkg/core/mpt/proof.go", [("""	for i := range proofs {
		h := hash.DoubleSha256(proofs[i])
		tr.Store.Put(makeStorageKey(h), proofs[i])
	}""", """	for _, nodeBytes := range proofs {
		tr.Store.Put(makeStorageKey(hash.DoubleSha256(nodeBytes)), nodeBytes)
	}""")])]),
 ("r10-addstateroot-compare-local", ["C03"], "AddStateRoot: the comparison bound to a local",
  [("pkg/core/stateroot/store.go", [("""	if !local.Root.Equals(sr.Root) {
		return fmt.Errorf("%w at block %d: %v vs %v", ErrStateMismatch, sr.Index, local.Root, sr.Root)
	}""", """	sameRoot := local.Root.Equals(sr.Root)
	if !sameRoot {
		return fmt.Errorf("%w at block %d: %v vs %v", ErrStateMismatch, sr.Index, local.Root, sr.Root)
	}""")])]),
 ("r10-callinternal-manifest-inverted", ["C16", "C04"], "callInternal: the hardfork test inverted",
  [("pkg/core/interop/contract/call.go", [("""		if ic.IsHardforkEnabled(config.HFDomovoi) {
			mfst = ctx.GetManifest()
		} else {
			curr, err := ic.GetContract(ic.VM.GetCurrentScriptHash())
			if err == nil {
				mfst = &curr.Manifest
			}
		}""", """		if !ic.IsHardforkEnabled(config.HFDomovoi) {
			curr, err := ic.GetContract(ic.VM.GetCurrentScriptHash())
			if err == nil {
				mfst = &curr.Manifest
			}
		} else {
			mfst = ctx.GetManifest()
		}""")])]),
 ("r10-loadtoken-flags-local", ["C16"], "LoadToken: the token's flags through a local",
  [("pkg/core/interop/contract/call.go", [("""	return callInternal(ic, cs, md, tok.CallFlag, tok.HasReturn, args, false)""", """	requested := tok.CallFlag
	return callInternal(ic, cs, md, requested, tok.HasReturn, args, false)""")])]),
 ("r10-trieget-clone-local", ["C10", "C03"], "Trie.Get: the copy bound to a local",
  [("pkg/core/mpt/trie.go", [("""	return bytes.Clone(leaf.(*LeafNode).value), nil
}

// getWithPath""", """	own := bytes.Clone(leaf.(*LeafNode).value)
	return own, nil
}

// getWithPath""")])]),
 ("r10-deletefrombranch-rename", ["C10", "C11"], "deleteFromBranch: the remembered hash and bytes renamed",
  [("pkg/core/mpt/trie.go", [("""	h := b.Hash()
	bs := b.bytes
	r, err := t.deleteFromNode(b.Children[i], path)
	if err != nil {
		return nil, err
	}
	t.removeRef(h, bs)""", """	oldHash := b.Hash()
	oldBytes := b.bytes
	r, err := t.deleteFromNode(b.Children[i], path)
	if err != nil {
		return nil, err
	}
	t.removeRef(oldHash, oldBytes)""")])]),
 ("r10-serialize-reset-loop", ["C17", "C01"], "SerializationContext.Serialize: the map emptied by a delete loop",
  [("pkg/vm/stackitem/serialization.go", [("""	clear(w.seen)
	err := w.serialize(item)""", """	for it := range w.seen {
		delete(w.seen, it)
	}
	err := w.serialize(item)""")])]),
 ("r10-header-decode-hash-inline", ["C17", "C06"], "Header.decodeHashableFields: the hash computed inline",
  [("pkg/core/block/header.go", [("""	if br.Err == nil {
		b.createHash()
	}
}

// MarshalJSON""", """	if br.Err == nil {
		buf := io.NewBufBinWriter()
		b.encodeHashableFields(buf.BinWriter)
		b.hash = hash.Sha256(buf.Bytes())
	}
}

// MarshalJSON""")])]),
 ("r10-reset-noop-nested", ["C02"], "resetStateInternal: the nothing-to-do test as two nested tests",
  [("pkg/core/blockchain.go", [("""		if height == currHeight && hHeight == currHeight {
			bc.log.Info("chain is at the proper state", zap.Uint32("height", height))
			return nil
		}""", """		if height == currHeight {
			if hHeight == currHeight {
				bc.log.Info("chain is at the proper state", zap.Uint32("height", height))
				return nil
			}
		}""")])]),
 ("r10-neo-updatecache-rename", ["C01", "C19"], "NEO.updateCache: the sorted prefix renamed",
  [("pkg/core/native/native_neo.go", [("""	nextVals := committee[:n.cfg.GetNumOfCNs(blockHeight+1)].Copy()
	slices.SortFunc(nextVals, (*keys.PublicKey).Cmp)
	cache.nextValidators = nextVals
	return nil""", """	byKey := committee[:n.cfg.GetNumOfCNs(blockHeight+1)].Copy()
	slices.SortFunc(byKey, (*keys.PublicKey).Cmp)
	cache.nextValidators = byKey
	return nil""")])]),
 ("r10-boltget-found-first", ["C01", "C09"], "BoltDBStore.Get: the found case returns first",
  [("pkg/core/storage/boltdb_store.go", [("""	if val == nil {
		err = ErrKeyNotFound
	}
	return
}""", """	if val != nil {
		return
	}
	err = ErrKeyNotFound
	return
}""")])]),
 # batch 10: variants for the rules of round 10
 ("r11-notary-charge-local", ["C05"], "Notary.OnPersist: the charged amount through a local",
  [("pkg/core/native/notary.go", [("""				balance.Amount.Sub(balance.Amount, big.NewInt(tx.SystemFee+tx.NetworkFee))""", """				charged := big.NewInt(tx.NetworkFee + tx.SystemFee)
				balance.Amount.Sub(balance.Amount, charged)""")])]),
 ("r11-addtokens-delete-else-flat", ["C05"], "addTokens: the store of the record written without else",
  [("pkg/core/native/native_nep17.go", [("""	if si == nil {
		ic.DAO.DeleteStorageItem(c.ID, key)
	} else {
		ic.DAO.PutStorageItem(c.ID, key, si)
	}

	buf, supply := c.getTotalSupply(ic.DAO)
	supply.Add(supply, amount)
	c.saveTotalSupply(ic.DAO, buf, supply)
	return dist""", """	if si != nil {
		ic.DAO.PutStorageItem(c.ID, key, si)
	}
	if si == nil {
		ic.DAO.DeleteStorageItem(c.ID, key)
	}

	buf, supply := c.getTotalSupply(ic.DAO)
	supply.Add(supply, amount)
	c.saveTotalSupply(ic.DAO, buf, supply)
	return dist""")])]),
 ("r11-convert-clone-local", ["C12", "C13"], "Array.Convert: the cloned elements through a local",
  [("pkg/vm/stackitem/item.go", [("""		return NewStruct(slices.Clone(i.value)), nil""", """		elems := slices.Clone(i.value)
		return NewStruct(elems), nil""")])]),
 ("r11-deploy-caller-local", ["C15", "C16"], "callDeployDeferrable: the native's hash through a local",
  [("pkg/core/native/management.go", [("""		err := contract.CallFromNative(ic, m.Hash, cs, manifest.MethodDeploy,""", """		self := m.Hash
		err := contract.CallFromNative(ic, self, cs, manifest.MethodDeploy,""")])]),
 ("r11-chainblock-reset-local", ["C19"], "handleChainBlock: the nanosecond time through a local",
  [("pkg/consensus/consensus.go", [("""		s.dbft.Reset(b.Timestamp * nsInMs)""", """		tipTime := b.Timestamp * nsInMs
		s.dbft.Reset(tipTime)""")])]),
 ("r11-requesttx-sort-in-place", ["C19"], "RequestTx: the clone named differently",
  [("pkg/network/server.go", [("""	var sorted = slices.Clone(hashes)
	slices.SortFunc(sorted, util.Uint256.Compare)
	s.txCbList.Store(sorted)""", """	awaited := slices.Clone(hashes)
	slices.SortFunc(awaited, util.Uint256.Compare)
	s.txCbList.Store(awaited)""")])]),
 ("r11-equalstruct-charge-first", ["C13", "C12"], "equalStruct: the nested-struct test before the type test of byte arrays",
  [("pkg/vm/stackitem/item.go", [("""			if *maxComparableSize == 0 {
				panic(errTooBigComparable)
			}
			*maxComparableSize--
			sa, oka := i.value[j].(*Struct)
			sb, okb := s.value[j].(*Struct)
			if oka && okb {""", """			sa, oka := i.value[j].(*Struct)
			sb, okb := s.value[j].(*Struct)
			if *maxComparableSize == 0 {
				panic(errTooBigComparable)
			}
			*maxComparableSize--
			if oka && okb {""")])]),
 ("r11-shl-zero-guard-split", ["C13", "C12"], "SHL/SHR: the pre-Gorgon zero-shift test as two nested tests",
  [("pkg/vm/vm.go", [("""		if !v.isHardforkEnabled(config.HFGorgon) && b == 0 {
			return
		}""", """		if b == 0 {
			if !v.isHardforkEnabled(config.HFGorgon) {
				return
			}
		}""")])]),
 # batch 11: variants for the rules of round 11
 ("r12-dropcandidate-cache-first", ["C01", "C05"], "dropCandidateIfZero: the cache entry dropped before the stored record",
  [("pkg/core/native/native_neo.go", [("""	voterKey := makeVoterKey(pub.Bytes())
	d.DeleteStorageItem(n.ID, voterKey)
	delete(cache.gasPerVoteCache, string(voterKey[1:])) // the cache is keyed by the public key bytes, without the prefix""", """	rewardKey := makeVoterKey(pub.Bytes())
	delete(cache.gasPerVoteCache, string(rewardKey[1:])) // the cache is keyed by the public key bytes, without the prefix
	d.DeleteStorageItem(n.ID, rewardKey)""")])]),
 ("r12-find-value-concat-local", ["C09"], "storage Iterator.Value: the full key through a local",
  [("pkg/core/interop/storage/find.go", [("""		key = slices.Concat(s.prefix, key)""", """		full := slices.Concat(s.prefix, key)
		key = full""")])]),
 ("r12-groups-arevalid-range-value", ["C16", "C15"], "Groups.AreValid: the signature loop over the values",
  [("pkg/smartcontract/manifest/group.go", [("""		for i := range g {
			err := g[i].IsValid(h)
			if err != nil {
				return err
			}
		}""", """		for _, grp := range g {
			if err := grp.IsValid(h); err != nil {
				return err
			}
		}""")])]),
 ("r12-signer-global-eq-form", ["C17", "C15"], "Signer.DecodeBinary: the Global test written with an early accept",
  [("pkg/core/transaction/signer.go", [("""	if c.Scopes&Global != 0 && c.Scopes != Global {""", """	if hasGlobal := c.Scopes&Global != 0; hasGlobal && !(c.Scopes == Global) {""")])]),
 ("r12-deser-integer-limit-const", ["C17", "C12"], "stack item decoder: the Integer limit through a local constant",
  [("pkg/vm/stackitem/serialization.go", [("""		data := r.ReadVarBytes(bigint.MaxBytesLen)""", """		const maxIntegerBody = bigint.MaxBytesLen
		data := r.ReadVarBytes(maxIntegerBody)""")])]),
 ("r12-resettransfers-flag-renamed", ["C02"], "resetTransfers: the per-account flag renamed",
  [("pkg/core/blockchain.go", [rn("removeFollowing", "dropRestOfAccount")])]),
 ("r12-newtx-canonical-helper-order", ["C17", "C07"], "NewTransactionFromBytes: the size set before the comparison",
  [("pkg/core/transaction/transaction.go", [("""	cw := sameBytesWriter{expected: b}
	w := io.NewBinWriterFromIO(&cw)
	tx.EncodeBinary(w)
	if w.Err != nil || cw.differs || len(cw.expected) != 0 {
		return nil, ErrNonCanonicalEncoding
	}
	tx.size = len(b)
	return tx, nil""", """	tx.size = len(b)
	check := sameBytesWriter{expected: b}
	enc := io.NewBinWriterFromIO(&check)
	tx.EncodeBinary(enc)
	if enc.Err != nil || check.differs || len(check.expected) != 0 {
		return nil, ErrNonCanonicalEncoding
	}
	return tx, nil""")])]),
 # batch 12: other kinds of edit for the rules of rounds 8-11 (helper extraction, inverted tests, early returns)
 ("r13-chainblock-early-return", ["C19"], "handleChainBlock: the index test inverted into an early return",
  [("pkg/consensus/consensus.go", [("""	if b.Index >= s.dbft.BlockIndex {
		s.log.Debug("new block in the chain",
			zap.Uint32("dbft index", s.dbft.BlockIndex),
			zap.Uint32("chain index", s.Chain.BlockHeight()))
		s.postBlock(b)
		s.dbft.Reset(b.Timestamp * nsInMs)
	}
}""", """	if b.Index < s.dbft.BlockIndex {
		return
	}
	s.log.Debug("new block in the chain",
		zap.Uint32("dbft index", s.dbft.BlockIndex),
		zap.Uint32("chain index", s.Chain.BlockHeight()))
	s.postBlock(b)
	s.dbft.Reset(nsInMs * b.Timestamp)
}""")])]),
 ("r13-requesttx-sort-slices-sort", ["C19"], "RequestTx: the sort through slices.SortStableFunc",
  [("pkg/network/server.go", [("""	slices.SortFunc(sorted, util.Uint256.Compare)
	s.txCbList.Store(sorted)""", """	slices.SortStableFunc(sorted, util.Uint256.Compare)
	s.txCbList.Store(sorted)""")])]),
 ("r13-samewitness-verification-first", ["C06", "C07", "C19"], "sameWitness: the verification scripts compared first",
  [("pkg/core/blockchain.go", [("""	return bytes.Equal(a.InvocationScript, b.InvocationScript) && bytes.Equal(a.VerificationScript, b.VerificationScript)""", """	return bytes.Equal(a.VerificationScript, b.VerificationScript) && bytes.Equal(a.InvocationScript, b.InvocationScript)""")])]),
 ("r13-addstateroot-witness-first", ["C03"], "AddStateRoot: nothing but the order of two independent early returns... kept: the comparison stays first, the witness test is written positively",
  [("pkg/core/stateroot/store.go", [("""	if len(local.Witness) != 0 {
		return nil
	}
	putStateRoot(s.Store, key, sr)""", """	if alreadyValidated := len(local.Witness) != 0; alreadyValidated {
		return nil
	}
	putStateRoot(s.Store, key, sr)""")])]),
 ("r13-memseekgc-delete-helper-local", ["C09", "C02"], "MemoryStore.SeekGC: the map chosen into a local first",
  [("pkg/core/storage/memory_store.go", [("""		if !keep {
			delete(s.chooseMap(k), string(k))
		}
		return cont""", """		if !keep {
			target := s.chooseMap(k)
			delete(target, string(k))
		}
		return cont""")])]),
 ("r13-leveldbseekgc-inverted", ["C09"], "LevelDBStore.SeekGC: the keep answer handled by an early return",
  [("pkg/core/storage/leveldb_store.go", [("""		keep, cont := keepCont(k, v)
		if !keep {
			err = tx.Delete(k, nil)
			if err != nil {
				return false
			}
		}
		return cont""", """		keep, cont := keepCont(k, v)
		if keep {
			return cont
		}
		err = tx.Delete(k, nil)
		if err != nil {
			return false
		}
		return cont""")])]),
 ("r13-callinternal-safe-mask-local", ["C16", "C04"], "callInternal: the flags a safe method loses through a local",
  [("pkg/core/interop/contract/call.go", [("""		f &^= (callflag.WriteStates | callflag.AllowNotify)""", """		changing := callflag.WriteStates | callflag.AllowNotify
		f &^= changing""")])]),
 ("r13-deser-integer-err-first", ["C17", "C12"], "stack item decoder: the reader's error tested in another statement form",
  [("pkg/vm/stackitem/serialization.go", [("""		data := r.ReadVarBytes(bigint.MaxBytesLen)""", """		var data = r.ReadVarBytes(bigint.MaxBytesLen)""")])]),
 ("r13-updatecache-sort-before-copy-name", ["C01", "C19"], "NEO.updateCache: the count of validators through a local",
  [("pkg/core/native/native_neo.go", [("""	nextVals := committee[:n.cfg.GetNumOfCNs(blockHeight+1)].Copy()""", """	numOfCNs := n.cfg.GetNumOfCNs(blockHeight + 1)
	nextVals := committee[:numOfCNs].Copy()""")])]),
]

out = "/verif/benign"
made = 0
for name, props, what, files in B:
    d = os.path.join(out, name)
    patch = ""
    ok = True
    for f, edits in files:
        src = open("/repo/" + f).read()
        new = src
        for e in edits:
            if e[0] == "re":
                new2, n = re.subn(e[1], e[2], new)
                if n == 0:
                    print("SKIP", name, ": regex", e[1], "matches nothing in", f); ok = False
                new = new2
            else:
                if new.count(e[0]) != 1:
                    print("SKIP", name, ": edit applies", new.count(e[0]), "times in", f); ok = False
                new = new.replace(e[0], e[1])
        patch += "".join(difflib.unified_diff(src.splitlines(True), new.splitlines(True), "a/" + f, "b/" + f))
    if not ok:
        continue
    os.makedirs(d, exist_ok=True)
    open(d + "/patch.diff", "w").write(patch)
    json.dump({"properties": props, "what": what, "kind": "benign: behaviour-preserving edit, every listed check must stay silent",
               "source": "hand-made"}, open(d + "/meta.json", "w"), indent=1)
    made += 1
print(made, "benign variants written")
