#!/usr/bin/env python3
"""meta.json for round 9 (C01, C02, C03, C06, C07, C09, C10, C11, C16, C17)."""
import json, os, subprocess, sys
T = {
 "C01-r9m1": ("BoltDBStore.Get decides ErrKeyNotFound by len(val) == 0 instead of val == nil", "a node on BoltDB and a stored empty value (a voters-count or blocked-account marker, an empty contract value): it reads it as absent where LevelDB and memory-backed nodes read it as present", "pkg/core", "TestC01Demo_EmptyValueBoltFlush", "missed", "absent-is-nil existed and caught it under C09; its scope for C01 did not include package storage - added after"),
 "C01-r9m2": ("NEO.updateCache stores the committee prefix as nextValidators without sorting it by key", "a restart: the restarted node derives another validator order (multisignature script, NextConsensus, primary) than the nodes that filled the cache while processing blocks", "pkg/core", "TestC01Demo_NextValidatorsAfterRestart", "missed", "validators-sorted added after"),
 "C02-r9m1": ("jumpToStateInternal deletes the genesis block even when no header-hash page is stored (chains below 2000 headers)", "a state jump on a short chain and one more ordinary restart: HeaderHashes.init walks the stored headers down to genesis", "pkg/core", "TestC02Demo_JumpThenRestartShortChain", "DETECTED gc-keeps-startup-page", "rule existed before the seed was looked at"),
 "C02-r9m2": ("resetStateInternal returns 'nothing to do' when the target equals the block height, without looking at the header height", "headers ahead of blocks and a reset to the current block height: the stale headers stay", "pkg/core", "TestC02Demo_ResetToTipDropsStaleHeaders", "missed", "reset-noop-both-heights added after"),
 "C03-r9m1": ("VerifyProof stores the first proof element under the requested root hash instead of its own hash", "a forged proof: any self-made extension->leaf sequence verifies against any root", "pkg/core/mpt", "TestC03Demo_", "missed", "proof-node-by-own-hash added after"),
 "C03-r9m2": ("AddStateRoot compares the received root with the local one only when the local record already has a witness", "a state root of an existing height, correctly signed by the state validators, with a root that differs from the computed one", "pkg/services/stateroot", "TestC03Demo_", "missed", "root-compared-before-store added after"),
 "C06-r9m1": ("sameWitness compares the invocation scripts only", "a block whose recorded header, or whose pooled transaction, keeps the verified signature bytes and carries another verification script", "pkg/core", "TestC06Demo_AlteredVerificationScript", "missed", "witness-identity-complete added after"),
 "C06-r9m2": ("Transaction.isValid compares each signer with its predecessor only", "signers A, B, A", "pkg/core", "TestC06Demo_RepeatedSigner", "missed", "uniqueness-all-pairs added after"),
 "C07-r9m2": ("the rebuild of Pool.conflicts in RemoveStale enters (own hash -> named hash) instead of (named hash -> own hash)", "pool B naming A in Conflicts, accept a block, submit A: both are pooled and the packed block is refused", "pkg/core", "TestC07Demo_PoolAfterBlockStaysProposable", "missed", "index-roles-agree added after"),
 "C09-r9m1": ("performSeek keeps the lower store's value slice without cloning it", "LevelDB/BoltDB and an asynchronous consumer (storage iterators): a delivered pair takes the next pair's value", "pkg/core/storage", "TestC09Demo_SeekAsyncValuesStayIntact", "missed", "seek-callback-clones added after"),
 "C09-r9m2": ("BoltDBStore.SeekGC returns on cont == false before it deletes the pair the handler wanted dropped", "BoltDB and a handler answering drop-and-stop (the header-hash page collector's boundary page)", "pkg/core/storage", "TestC09Demo_SeekGCDropsTheItemItStopsAt", "missed", "seekgc-keep-independent added after"),
 "C10-r9m1": ("Trie.Get returns the leaf's own value slice", "a long-lived trie (TrieStore) and a caller that writes into the result", "pkg/core/mpt", "TestC10Demo_GetResultIsCallersOwn", "missed", "trie-value-owned added after"),
 "C10-r9m2": ("deleteFromBranch calls removeRef before the descent", "a counting mode, a Delete that runs into a missing node, a Flush and a reload", "pkg/core/mpt", "TestC10Demo_FailedDeleteKeepsStoredNodes", "missed", "release-after-descent added after"),
 "C11-r9m1": ("updateRefCount writes the new counter into the slice it got from the store (the clone removed)", "a block computed and dropped, the record in a memory layer", "pkg/core/mpt", "TestC11Demo_UncommittedBlock", "DETECTED store-value-immutable", "rule existed before the seed was looked at"),
 "C11-r9m2": ("putBatchIntoExtensionNoPrefix re-attaches the extension's old child with newSubTrie(..., true)", "a batch diverging strictly inside an extension key with two or more nibbles left, in a counting mode: the child is counted once too often and never collected", "pkg/core/mpt", "TestC11Demo_ExtensionSplit", "missed", "newval-flag-provenance added after"),
 "C16-r9m1": ("callInternal takes the context's manifest (Domovoi) only when the lookup of the stored contract succeeds", "a contract that destroys itself and then calls a method its manifest does not permit", "pkg/core/interop/contract", "TestC16Demo_DestroyedCallerStillConfined", "missed", "manifest-of-context-unconditional added after"),
 "C16-r9m2": ("LoadToken (CALLT) passes the caller's flags instead of the token's CallFlag", "a ReadStates token whose target writes", "pkg/core/interop/contract", "TestC16Demo_TokenCallFlagsRestrictCallee", "missed", "token-flags-requested added after"),
 "C17-r9m1": ("SerializationContext.Serialize clears its memory of seen items only after a failed call", "one context (dao.GetItemCtx) and a compound item that appears in two Serialize calls with other data in between", "pkg/core/state", "TestC17Demo_", "missed", "context-reset-before-use added after"),
 "C17-r9m2": ("Header.decodeHashableFields calls the memoising Hash() instead of createHash()", "decoding into a header that was hashed or decoded before", "pkg/core/block", "TestC17Demo_", "missed", "decode-refreshes-cache added after"),
}
sweep = subprocess.run(["/verif/tools/seed_sweep.py"] + sys.argv[1:], capture_output=True, text=True).stdout
det = {}
for line in sweep.splitlines():
    parts = line.split()
    if len(parts) >= 2:
        det[parts[0]] = (parts[1], " ".join(parts[2:]))
for name, row in sorted(T.items()):
    d = "/verif/seeded/" + name
    if not os.path.isfile(d + "/patch.diff") or name not in det:
        print(name, "skipped"); continue
    what, needs, demodir, test, first, hist = row
    status, rules = det[name]
    meta = {"property": name[:3], "round": 9, "what": what, "needs": needs,
            "demo": {"copy_to": demodir, "run": "go test -count=1 -run '%s' ./%s/" % (test, demodir)},
            "confirmed": open(d + "/verify.log").read().strip().splitlines() if os.path.isfile(d + "/verify.log") else [],
            "first_sweep": first, "detection": status, "detected_by": rules if status == "DETECTED" else None,
            "source": "fresh sub-agent given only the property text and the list of earlier mutations to avoid; confirmed by tools/verify_seed.sh in a scratch worktree",
            "history": hist}
    json.dump(meta, open(d + "/meta.json", "w"), indent=1)
    print("%-12s %-9s %s" % (name, status, rules))
