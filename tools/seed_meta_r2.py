#!/usr/bin/env python3
"""Writes/refreshes meta.json of the round-2 seeds (/verif/seeded/*-r2m*): table below + current detection sweep.
`first_sweep` is what the checks said when the seed was first run, before anything was changed because of it."""
import json, os, subprocess
T = {
 "C05-r2m1-unvote-by-nonvoter": ("voteInternalUncheckedDeferrable changes the voters count when `VoteTo == nil || pub == nil` instead of when the voting status flips", "a NEO holder that votes for nobody calls vote(acc, null): its balance is subtracted from the voters count", "pkg/core/native/native_test", "TestC05_UnvoteByNonVoter", "missed"),
 "C05-r2m2-overdraft-check-after-votes": ("NEO.increaseBalance tests for insufficient funds after the vote bookkeeping was written", "a voting account attempts a NEO transfer larger than its balance: transfer returns false, tx HALTs, candidate votes and voters count stay decremented", "pkg/core/native/native_test", "TestC05_FailedTransferByVoter", "missed"),
 "C06-r2m1-batch-header-witness-last-only": ("addHeaders verifies the witness of the last header of a batch only", "AddHeaders with >= 2 headers, a non-last unsigned header redirecting NextConsensus to a forger script", "pkg/core", "TestC06M1_UnsignedHeaderInBatch", "DETECTED accept-dominators (the refactoring part of the patch — verifyHeader split into a helper — additionally raised four false reports, which led to helper delegation in the gate engine)"),
 "C06-r2m2-conflict-signers-first-hash": ("dao.StoreAsTransaction prefixes the per-signer conflict-record key once for all Conflicts attributes", "an on-chain tx with >= 2 Conflicts attributes, then a block carrying the tx named by the second one", "pkg/core", "TestC06M2_BlockWithOnChainConflict", "missed"),
 "C08-r2m1-conflicts-index-overwritten": ("RemoveStale rebuilds mp.conflicts[hash] by overwriting instead of appending", ">= 2 pooled txs naming the same un-pooled hash in Conflicts, a block in between, then that hash added with a higher fee", "pkg/core/mempool", "TestC08M1ConflictsSurviveBlockRefresh", "missed"),
 "C08-r2m2-empty-pool-skips-balance-refresh": ("RemoveStale returns early for an empty pool before clearing the per-payer balance cache", "payer known to the pool, pool empty when the next block lowers the payer's balance, then a tx affordable only at the old balance", "pkg/core/mempool", "TestC08M2", "missed"),
 "C09-r2m1-ps-read-before-lock": ("prepareSeekMemSnapshot reads s.ps before taking the read lock", "reader reads ps before Persist's swap and takes the lock after it: misses the whole batch being flushed", "pkg/core/storage", "TestC09SeekDuringPersistSeesCommittedKeys", "DETECTED lockset"),
 "C09-r2m2-merge-stop-not-propagated": ("performSeek does not set done when the callback stops on a lower-store item", ">= 2 layers in the range, early stop landing on a lower-store item, a pending in-range key in the top layer", "pkg/core/storage", "TestC09LimitedScanAcrossLayers", "missed"),
 "C01-r2m1-refcount-raw-read-gc-restart": ("Trie.updateRefCount reads the store directly instead of the mode-aware getFromStore (third independent delivery of this mutation: round 1 C03-m2, C10-m1)", "RemoveUntraceableBlocks, state returning to earlier content within the window, restart, later block touching the subtree", "pkg/core", "TestC01M1_StateGCAndRestartAreTransparent", "missed under C01 (mpt-reader was registered for C03/C10/C11 only; now also C01)"),
 "C01-r2m2-designate-init-height-off-by-one": ("Designate.InitializeCache asks for the record in force at blockHeight instead of the latest one", "designateAsRole in block h, restart exactly at height h, later block using the role", "pkg/core", "TestC01M2_DesignationIsRestartTransparent", "missed"),
 "C04-r2m1-notify-only-call-not-wrapped": ("callExFromNative gives a call its own rollback scope only if it has WriteStates (was WriteStates|AllowNotify)", "caller with a try block calls with AllowNotify but without WriteStates, callee notifies then throws, caller catches", "pkg/core/interop/contract", "TestC04Demo_CaughtCalleeNotificationsAreDiscarded", "missed"),
 "C04-r2m2-whitelist-setter-ro-cache": ("Policy.setWhitelistFeeContract edits the cache obtained with GetROCache", "committee-signed execution reaches the setter and then faults or throws into a catch", "pkg/core/native/native_test", "TestC04Demo_FailedWhitelistFeeSettingLeavesNoTrace", "DETECTED cache-ro"),
 "C10-r2m1-batch-drops-empty-valued-prefix": ("newSubTrieMany keeps the existing value as last child only if len(value) != 0 (was != nil)", "key K stored with an empty value as a plain leaf, PutBatch adding keys that have K as proper prefix, K not in the batch", "pkg/core/mpt", "TestDemoC10M1", "missed"),
 "C10-r2m2-flush-stale-initial-count": ("Trie.Flush drops the result of updateRefCount instead of storing it in node.initial", "ref-counting mode, shared node loaded from the store in the flush period in which its counter changes, two later flushes (+1 then -1) without Collapse", "pkg/core/mpt", "TestDemoC10M2", "missed"),
}
HISTORY = {}
if os.path.exists("/verif/tools/seed_history_r2.json"):
    HISTORY = json.load(open("/verif/tools/seed_history_r2.json"))
sweep = subprocess.run(["/verif/tools/seed_sweep.py"], capture_output=True, text=True).stdout
det = {}
for line in sweep.splitlines():
    parts = line.split()
    if len(parts) >= 2:
        det[parts[0]] = (parts[1], parts[2] if len(parts) > 2 else "")
for name, (what, needs, demodir, test, first) in sorted(T.items()):
    d = "/verif/seeded/" + name
    if not os.path.isfile(d + "/patch.diff"):
        continue
    status, rules = det.get(name, ("?", ""))
    meta = {"property": name[:3], "round": 2, "what": what, "needs": needs,
            "demo": {"copy_to": demodir, "run": f"go test -count=1 -run '{test}' ./{demodir}/"},
            "confirmed": open(d + "/verify.log").read().strip().splitlines() if os.path.exists(d + "/verify.log") else [],
            "first_sweep": first,
            "detection": status, "detected_by": rules or None,
            "history": HISTORY.get(name, "rule existed before the seed was looked at" if first.startswith("DETECTED") else ("not detected" if status != "DETECTED" else "detected only after a rule was added or widened because of this seed")),
            "source": "fresh sub-agent given only the property text and the list of round-1 mutations to avoid; confirmed by tools/verify_seed.sh in a scratch worktree"}
    json.dump(meta, open(d + "/meta.json", "w"), indent=1)
    print(name, status, rules)
