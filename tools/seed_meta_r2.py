#!/usr/bin/env python3
"""Writes/refreshes meta.json of the round-2 seeds (/verif/seeded/*-r2m*): table below + current detection sweep.
`first_sweep` is what the checks said when the seed was first run, before anything was changed because of it."""
import json, os, subprocess
T = {
 "C05-r2m1-unvote-by-nonvoter": ("voteInternalUncheckedDeferrable changes the voters count when `VoteTo == nil || pub == nil` instead of when the voting status flips", "a NEO holder that votes for nobody calls vote(acc, null): its balance is subtracted from the voters count", "pkg/core/native/native_test", "TestC05_UnvoteByNonVoter", "missed"),
 "C05-r2m2-overdraft-check-after-votes": ("NEO.increaseBalance tests for insufficient funds after the vote bookkeeping was written", "a voting account attempts a NEO transfer larger than its balance: transfer returns false, tx HALTs, candidate votes and voters count stay decremented", "pkg/core/native/native_test", "TestC05_FailedTransferByVoter", "missed"),
 "C06-r2m1-batch-header-witness-last-only": ("addHeaders verifies the witness of the last header of a batch only", "AddHeaders with >= 2 headers, a non-last unsigned header redirecting NextConsensus to a forger script", "pkg/core", "TestC06M1_UnsignedHeaderInBatch", "DETECTED accept-dominators (the refactoring part of the patch — verifyHeader split into a helper — additionally raised four false reports, which led to helper delegation in the gate engine)"),
 "C06-r2m2-conflict-signers-first-hash": ("dao.StoreAsTransaction prefixes the per-signer conflict-record key once for all Conflicts attributes", "an on-chain tx with >= 2 Conflicts attributes, then a block carrying the tx named by the second one", "pkg/core", "TestC06M2_BlockWithOnChainConflict", "missed"),
 "C08-r2m1-conflicts-index-overwritten": ("RemoveStale rebuilds mp.conflicts[hash] by overwriting instead of appending", ">= 2 pooled txs naming the same un-pooled hash in Conflicts, a block in between, then that hash added with a higher fee", "pkg/core/mempool", "TestC08M1ConflictsSurviveBlockRefresh", "missed"),
 "C08-r2m2-empty-pool-skips-balance-refresh": ("RemoveStale returns early for an empty pool before clearing the per-payer balance cache", "payer known to the pool, pool empty when the next block lowers the payer's balance, then a tx affordable only at the old balance", "pkg/core/mempool", "TestC08M2", "missed"),
 "C09-r2m1-ps-read-before-lock": ("prepareSeekMemSnapshot reads s.ps before taking the read lock", "reader reads ps before Persist's swap and takes the lock after it: misses the whole batch being flushed", "pkg/core/storage", "TestC09SeekDuringPersistSeesCommittedKeys", "DETECTED lockset"),
 "C09-r2m2-merge-stop-not-propagated": ("performSeek does not set done when the callback stops on a lower-store item", ">= 2 layers in the range, early stop landing on a lower-store item, a pending in-range key in the top layer", "pkg/core/storage", "TestC09LimitedScanAcrossLayers", "missed"),
 "C01-r2m1-refcount-raw-read-gc-restart": ("Trie.updateRefCount reads the store directly instead of the mode-aware getFromStore (third independent delivery of this mutation: round 1 C03-m2, C10-m1)", "RemoveUntraceableBlocks, state returning to earlier content within the window, restart, later block touching the subtree", "pkg/core", "TestC01M1_StateGCAndRestartAreTransparent", "missed under C01 (mpt-reader was registered for C03/C10/C11 only; now also C01)"),
 "C01-r2m2-designate-init-height-off-by-one": ("Designate.InitializeCache asks for the record in force at blockHeight instead of the latest one", "designateAsRole in block h, restart exactly at height h, later block using the role", "pkg/core", "TestC01M2_DesignationIsRestartTransparent", "missed"),
 "C04-r2m1-notify-only-call-not-wrapped": ("callExFromNative gives a call its own rollback scope only if it has WriteStates (was WriteStates|AllowNotify)", "caller with a try block calls with AllowNotify but without WriteStates, callee notifies then throws, caller catches", "pkg/core/interop/contract", "TestC04Demo_CaughtCalleeNotificationsAreDiscarded", "missed"),
 "C04-r2m2-whitelist-setter-ro-cache": ("Policy.setWhitelistFeeContract edits the cache obtained with GetROCache", "committee-signed execution reaches the setter and then faults or throws into a catch", "pkg/core/native/native_test", "TestC04Demo_FailedWhitelistFeeSettingLeavesNoTrace", "DETECTED cache-ro"),
 "C10-r2m1-batch-drops-empty-valued-prefix": ("newSubTrieMany keeps the existing value as last child only if len(value) != 0 (was != nil)", "key K stored with an empty value as a plain leaf, PutBatch adding keys that have K as proper prefix, K not in the batch", "pkg/core/mpt", "TestDemoC10M1", "missed"),
 "C10-r2m2-flush-stale-initial-count": ("Trie.Flush drops the result of updateRefCount instead of storing it in node.initial", "ref-counting mode, shared node loaded from the store in the flush period in which its counter changes, two later flushes (+1 then -1) without Collapse", "pkg/core/mpt", "TestDemoC10M2", "missed"),
 "C02-r2m1-restart-clears-votes-changed": ("NEO.InitializeCache no longer starts the rebuilt cache with votesChanged raised", "committee > 1, a vote-affecting tx in an already flushed block of the epoch, restart at least two blocks before the epoch ends, no further vote-affecting tx", "pkg/core", "TestC02M1_RestartInsideEpochAfterVote", "missed (the flag was tabled as `derived: starts set` without the rule looking at its initial value)"),
 "C02-r2m2-resume-skips-stateroot-cleanup": ("stateroot.Module.ResetState deletes newer state roots by counting up to the in-memory localHeight, which a resumed reset has not initialised", "crash during Reset before the headersReset batch reaches disk, restart resumes it: stale state roots above the reset height stay", "pkg/core", "TestC02M2_InterruptedResetIsResumed", "missed"),
 "C03-r2m1-empty-valued-key-dropped": ("newSubTrieMany re-creates the carried-over value only if len(value) != 0 (same mutation as C10-r2m1, delivered independently)", "key K stored with an empty value, a later block stores K+suffix without touching K", "pkg/core", "TestC03Demo1", "missed"),
 "C03-r2m2-trie-read-key-limit-too-small": ("mpt.MaxKeyLength shrunk to the storage key limit, forgetting the 4-byte contract id", "contract storage key of 61..64 bytes stored (write path has no check) and then read through the trie", "pkg/core", "TestC03Demo2", "missed"),
 "C07-r2m1-recheck-flag-last-witness-only": ("IsTxStillRelevant lets the last witness alone decide whether witnesses are re-verified", "pooled tx with >= 2 signers, a state-dependent non-standard witness that is not last, a later block invalidating it, then a proposal built from the pool", "pkg/core", "TestC07M1_PoolContentsFormAcceptableBlock", "missed"),
 "C07-r2m2-pusha-target-unchecked": ("IsScriptCorrect no longer records PUSHA operands as jump targets", "transaction or witness script with a misaligned PUSHA offset", "pkg/core", "TestC07M2_MalformedScriptIsNotAdmitted", "missed under C07; DETECTED jump-opcode-agreement under C12 (the rule was not registered for C07; now it is)"),
 "C11-r2m1-merge-extension-keeps-old-ref": ("mergeExtension builds the merged extension from the fields of a node just loaded from the store and never releases the loaded one", "ref-counting mode, PutBatch stripping a branch down to one extension child that the in-memory trie holds as a hash node (after Collapse or restart)", "pkg/core/stateroot", "TestDemoM1_NodeStorageIsExactAfterBranchStrip", "missed"),
 "C11-r2m2-flush-stale-initial-count": ("Trie.Flush drops the result of updateRefCount (same mutation as C10-r2m2, delivered independently)", "shared node known by hash only, loaded after addRef created its map entry, next block changes the count again on the same uncollapsed trie", "pkg/core/stateroot", "TestDemoM2_SharedValueSurvivesUnrelatedDelete", "DETECTED rc-writers (refcount-result clause, added an hour earlier because of the identical C10-r2m2)"),
 "C12-r2m1-setitem-unrefs-wrong-struct": ("SETITEM's out-of-range branch releases the original struct instead of its clone", "out-of-range SETITEM inside TRY with a Struct value that is also referenced elsewhere: the counter under-counts and the 2048 limit is bypassed", "pkg/vm", "TestC12M1_SetItemOutOfRangeSharedStruct", "missed"),
 "C12-r2m2-gas-limit-truncated": ("the per-opcode gas limit check compares whole Datoshi (truncating) instead of picoGAS", "fractional ExecFeeFactor (post-Faun), consumption ending strictly between the limit and the limit plus one Datoshi", "pkg/vm", "TestC12M2_GasLimitIsNeverExceededOnHalt", "DETECTED gas-before-dispatch"),
}
HISTORY = {}
if os.path.exists("/verif/tools/seed_history_r2.json"):
    HISTORY = json.load(open("/verif/tools/seed_history_r2.json"))
sweep = subprocess.run(["/verif/tools/seed_sweep.py"], capture_output=True, text=True).stdout
det = {}
for line in sweep.splitlines():
    parts = line.split()
    if len(parts) >= 2:
        det[parts[0]] = (parts[1], parts[2] if len(parts) > 2 else "")
for name, (what, needs, demodir, test, first) in sorted(T.items()):
    d = "/verif/seeded/" + name
    if not os.path.isfile(d + "/patch.diff"):
        continue
    status, rules = det.get(name, ("?", ""))
    meta = {"property": name[:3], "round": 2, "what": what, "needs": needs,
            "demo": {"copy_to": demodir, "run": f"go test -count=1 -run '{test}' ./{demodir}/"},
            "confirmed": open(d + "/verify.log").read().strip().splitlines() if os.path.exists(d + "/verify.log") else [],
            "first_sweep": first,
            "detection": status, "detected_by": rules or None,
            "history": HISTORY.get(name, "rule existed before the seed was looked at" if first.startswith("DETECTED") else ("not detected" if status != "DETECTED" else "detected only after a rule was added or widened because of this seed")),
            "source": "fresh sub-agent given only the property text and the list of round-1 mutations to avoid; confirmed by tools/verify_seed.sh in a scratch worktree"}
    json.dump(meta, open(d + "/meta.json", "w"), indent=1)
    print(name, status, rules)
