#!/usr/bin/env python3
"""meta.json for round 7 7 (C02, C03, C06, C08, C10, C15, C17, C19)."""
import json, os, subprocess, sys
T = {
 "C02-r7m1": ("the failed-flush branch of persist merges the flushed contract storage with the generic map instead of the storage map (mergedMaps(tempstore.stor, s.mem))", "a flush that fails, a block accepted while it ran, a later flush that succeeds", "pkg/core", "TestC02Demo_FailedFlush", "DETECTED swap-order", "rule existed before the seed was looked at"),
 "C02-r7m2": ("resetTransfers takes a kept transfer batch for full at size > TokenTransferBatchSize instead of >=", "a state reset and an account that keeps at least one complete batch of 128 transfers", "pkg/core", "TestC02Demo_ResetTransferLogs", "missed", "batch-full-agreement added after"),
 "C03-r7m1": ("GetStateProof clears mpt.ModeGC (0x3) instead of ModeGCFlag (0x2) from the module's mode", "RemoveUntraceableBlocks or KeepOnlyLatestState: every proof element keeps the reference-count suffix and no proof verifies", "pkg/core", "TestC03Demo_ProofsWithRemoveUntraceableBlocks", "missed", "layout-bit clause of historic-root added after"),
 "C03-r7m2": ("statesync restoreNode overwrites the children paths of a node that is expected at two paths instead of appending", "equal non-leaf subtrees at two paths and both parents restored before the shared node arrives", "pkg/core/statesync", "TestC03Demo_SyncedStorageMatchesTrie", "missed", "multimap-merge existed for C20 and C11; registered for C03 after"),
 "C06-r7m1": ("IsTxStillRelevant re-runs witnesses only for contract-based ones (empty verification script), not for custom scripts", "a pooled transaction signed by a custom verification script that reads chain state, a block that flips it, then a block carrying the transaction", "pkg/core", "TestC06Demo_StaleScriptWitness", "missed", "witness-recheck-classes added after"),
 "C06-r7m2": ("addHeaders compares the trusted header's hash before the known headers of the batch are dropped", "a node waiting for its trusted header and a batch [known index, forged trusted header]", "pkg/core", "TestC06Demo_TrustedHeader", "DETECTED trusted-header-checked", "rule existed before the seed was looked at"),
 "C08-r7m1": ("removeConflictsOf deletes every occurrence of the transaction from the conflicts list (slices.DeleteFunc) in its per-attribute loop", "a transaction naming one hash in two Conflicts attributes, a second pooled transaction naming the same hash, removal of the first", "pkg/core/mempool", "TestC08Demo_M1", "missed", "removal-multiplicity added after"),
 "C08-r7m2": ("tryAddSendersFee skips the balance check for a payer whose record is not cached yet", "a block that lowers a payer's balance below the fees of its best pooled transaction, then RemoveStale", "pkg/core/mempool", "TestC08Demo_M2", "missed", "check-not-cache-gated added after"),
 "C15-r7m1": ("System.Runtime.LoadScript no longer intersects the requested flags with the flags of the loading context", "a contract entered without ReadStates that loads a script calling CheckWitness for a group-scoped signer", "pkg/core/interop/runtime", "TestC15Demo_M1", "missed", "flags-narrowed added after"),
 "C15-r7m2": ("PublicKey.Cmp compares X only, so Equal holds for the mirrored key", "a group key with the same X and the other Y as the allowed one", "pkg/core/interop/runtime", "TestC15Demo_M2", "missed", "key-identity-complete added after"),
 "C17-r7m1": ("changeView.DecodeBinary reads the rejected hashes for CVBlockRejectedByPolicy instead of CVTxRejectedByPolicy", "a ChangeView with one of the two reasons", "pkg/consensus", "TestC17Demo_ChangeView", "DETECTED codec-guards", "rule existed before the seed was looked at"),
 "C17-r7m2": ("toJSON compares an integer with MaxAllowedInteger by Cmp instead of CmpAbs", "a negative integer below -(2^54-1) given to ToJSON / jsonSerialize", "pkg/vm/stackitem", "TestC17Demo_JSON", "missed", "magnitude-bound added after"),
 "C19-r7m1": ("the event loop derives the preparation hash of a recovery message only when the node has not seen the PrepareRequest", "a few lost PrepareResponse deliveries: the state only recovery messages can resolve is never resolved", "pkg/consensus", "TestC19Demo_Recovery", "missed", "recovery-normalisation added after"),
 "C19-r7m2": ("newChangeView drops the new view number from the node's own ChangeView", "timers firing between the PrepareRequest and the PrepareResponses: two validators commit in view 0, two move to view 1, for ever", "pkg/consensus", "TestC19Demo_TimeoutBeforeResponsesStillLive", "missed", "ctor-params-used added after"),
}
sweep = subprocess.run(["/verif/tools/seed_sweep.py"] + sys.argv[1:], capture_output=True, text=True).stdout
det = {}
for line in sweep.splitlines():
    parts = line.split()
    if len(parts) >= 2:
        det[parts[0]] = (parts[1], " ".join(parts[2:]))
for name, row in sorted(T.items()):
    d = "/verif/seeded/" + name
    if not os.path.isfile(d + "/patch.diff") or name not in det:
        print(name, "skipped"); continue
    what, needs, demodir, test, first, hist = row
    status, rules = det[name]
    meta = {"property": name[:3], "round": 7, "what": what, "needs": needs,
            "demo": {"copy_to": demodir, "run": "go test -count=1 -run '%s' ./%s/" % (test, demodir)},
            "confirmed": open(d + "/verify.log").read().strip().splitlines() if os.path.isfile(d + "/verify.log") else [],
            "first_sweep": first, "detection": status, "detected_by": rules if status == "DETECTED" else None,
            "source": "fresh sub-agent given only the property text and the list of earlier mutations to avoid; confirmed by tools/verify_seed.sh in a scratch worktree",
            "history": hist}
    json.dump(meta, open(d + "/meta.json", "w"), indent=1)
    print("%-12s %-9s %s" % (name, status, rules))
