#!/usr/bin/env python3
"""meta.json for round 10 (C04, C05, C08, C12, C13, C15, C19, C20)."""
import json, os, subprocess, sys
T = {
 "C05-r10m1": ("Notary.OnPersist takes only the network fee of a sponsored transaction off the depositor's record", "a NotaryAssisted transaction sent by the Notary contract with a non-zero system fee: the contract's GAS falls short of the recorded deposits by the system fee", "pkg/core/native/native_test", "TestC05Demo_NotaryDepositMatchesGAS", "missed", "deposit-charge-mirrors-burn added after"),
 "C08-r10m1": ("Pool.Add evicts the conflicting transactions before the OracleResponse check that can still refuse the addition", "a transaction carrying both a winning Conflicts relation and an OracleResponse that loses to a pooled one", "pkg/core/mempool", "TestC08Demo_FailedOracleAddKeepsConflicts", "DETECTED add-failure-atomic", "rule existed before the seed was looked at"),
 "C12-r10m1": ("KEYS adds m.Len() to the reference counter for the array it pushes instead of m.Len()+1 (the array itself is not counted)", "a loop of KEYS and DROP over a kept map: the counter sinks by one per round and the 2048 limit is passed", "pkg/vm", "TestC12Demo_KeysAccounting", "missed", "still missed: whether an arm's additions to the counter equal what it makes reachable is arithmetic over the arm (VALUES rightly adds 0, PACK n+1, NEWARRAY 1) - no structural clause separates m.Len() from m.Len()+1 without modelling the counter"),
 "C12-r10m2": ("Pointer.IsFromScript compares the lengths of the two scripts instead of their contents", "two versions of one contract with equal length and another instruction layout, a pointer of the old one handed to the new one", "pkg/vm", "TestC12Demo_PointerAcrossScriptVersions", "missed", "pointer-script-match asked that CALLA call a method that reads the script field with the running script - satisfied by a length comparison; by-content clause added after"),
 "C13-r10m1": ("pre-Gorgon SHL/SHR by zero pops the operand and pushes NewBigInteger of it instead of leaving it untouched", "Gorgon disabled (historic replay), shift 0, an operand that is not an Integer", "pkg/vm", "TestC13Demo_ZeroShiftPreGorgon", "missed", "operand-back-unchanged added after"),
 "C13-r10m2": ("Struct.equalStruct recurses into nested structures before charging the comparable-size budget", "byte strings using almost the whole budget followed by nested structures", "pkg/vm", "TestC13Demo_EqualNestedStructComparableUnits", "missed", "budget-every-element added after"),
 "C15-r10m1": ("Management.callDeployDeferrable names the invoker of deploy/update as the caller of _deploy instead of ContractManagement", "a contract whose _deploy checks the witness of the entry script or of a factory contract", "pkg/core/native/native_test", "TestC15Demo_DeployCallerIsManagement", "missed", "native-caller-is-self added after"),
 "C19-r10m1": ("handleChainBlock resets dBFT with s.lastTimestamp (milliseconds) instead of b.Timestamp * nsInMs", "a block that arrives from the network with a timestamp ahead of the next primary's clock", "pkg/consensus", "TestC19Demo_", "missed", "timer-units added after"),
 "C19-r10m2": ("RequestTx stores the awaited hashes unsorted while the transaction handler looks them up by binary search", "a backup missing two or more transactions of a proposal whose hashes are not ascending", "pkg/network", "TestC19Demo_", "missed", "sorted-before-binary-search added after"),
 "C20-r10m1": ("AddMPTNodes returns at the first bad node of a batch again, without the pool-empty test (the defect repaired in 0de182c, re-introduced)", "a batch whose last missing nodes are followed by a bad item", "pkg/core/statesync", "TestC20Demo_BadNodeAfterLastMPTNode", "DETECTED completion-after-progress", "rule written for finding 108 an hour before; the agent had not been told of it"),
 "C20-r10m2": ("Queue.Put increments len whenever an element is stored, also when it replaces a stale one", "a block ahead of the tip waiting in the ring, consensus moving the ledger past it, the block one ring turn later arriving before Run cleaned the slot", "pkg/network/bqueue", "TestC20Demo_StaleSlotReuseKeepsCapacity", "DETECTED ring-slot-index", "rule existed before the seed was looked at (finding 46)"),
}
sweep = subprocess.run(["/verif/tools/seed_sweep.py"] + sys.argv[1:], capture_output=True, text=True).stdout
det = {}
for line in sweep.splitlines():
    parts = line.split()
    if len(parts) >= 2:
        det[parts[0]] = (parts[1], " ".join(parts[2:]))
for name, row in sorted(T.items()):
    d = "/verif/seeded/" + name
    if not os.path.isfile(d + "/patch.diff") or name not in det:
        print(name, "skipped"); continue
    what, needs, demodir, test, first, hist = row
    status, rules = det[name]
    meta = {"property": name[:3], "round": 10, "what": what, "needs": needs,
            "demo": {"copy_to": demodir, "run": "go test -count=1 -run '%s' ./%s/" % (test, demodir)},
            "confirmed": open(d + "/verify.log").read().strip().splitlines() if os.path.isfile(d + "/verify.log") else [],
            "first_sweep": first, "detection": status, "detected_by": rules if status == "DETECTED" else None,
            "source": "fresh sub-agent given only the property text and the list of earlier mutations to avoid; confirmed by tools/verify_seed.sh in a scratch worktree",
            "history": hist}
    json.dump(meta, open(d + "/meta.json", "w"), indent=1)
    print("%-12s %-9s %s" % (name, status, rules))
