#!/usr/bin/env python3
"""meta.json for round 8 (C04, C05, C08, C12, C13, C15, C19, C20)."""
import json, os, subprocess, sys
T = {
 "C04-r8m1": ("GetPrivate fills a private layer's native cache map with the entries of its private parent (the same objects, 'to avoid copying twice')", "a layer below the rollback scope that already holds a copy of the native's cache: [tx1 sets X and HALTs, tx2 sets X and FAULTs], or write X then try { callee writes X and throws } catch", "pkg/core/native/native_test", "TestC04Demo_", "missed", "layer-cache-fresh added after"),
 "C04-r8m2": ("newInteropContext takes the storage price from bc.GetStoragePrice() (bc.dao) instead of the DAO layer it is given", "one block with a HALTed setStoragePrice followed by a storage-paying transaction whose fee lies between the two costs", "pkg/core/native/native_test", "TestC04Demo_", "missed", "given-dao-used added after"),
 "C05-r8m1": ("the failed-flush branch of persist merges the maps in the other order (mergedMaps(s.stor, tempstore.stor)): the older flushed values win over the newer ones", "a flush that fails, a block accepted while it ran, a later flush that succeeds", "pkg/core", "TestC05Demo_FailedFlushKeepsGASConserved", "missed", "third delivery of the failed-flush swap under another property; swap-order registered for C05 after"),
 "C05-r8m2": ("postTransfer skips the onNEP17Payment callback when sender and receiver are the same account", "a transfer whose sender is the receiver and is a contract with a payment callback (the Notary contract paying itself, any contract topping itself up): the callback that keeps the receiver's books is not run", "pkg/core/native/native_test", "TestC05Demo_NotaryGASEqualsDeposits", "missed", "callback-for-every-receiver added after"),
 "C08-r8m1": ("RemoveStale calls removeConflictsOf for every dropped transaction while the conflicts index is being rebuilt from nothing", "two pooled transactions naming one hash in Conflicts, one of them stale: the survivor's entry is deleted", "pkg/core/mempool", "TestC08Demo_", "missed", "rebuild-only-adds added after"),
 "C08-r8m2": ("checkTxConflicts credits the payer with tx.SystemFee + conflictingTx.NetworkFee when a conflicting transaction is to be replaced", "a replacement that needs more system fee than the transaction it replaces, with a balance that covers only one of them", "pkg/core/mempool", "TestC08Demo_", "missed", "fee-pair-same-tx added after"),
 "C12-r8m1": ("Struct/Array/Map.Clear zero the backing array (clear(i.value)) before truncating", "CLEARITEMS on a collection whose elements the reference counter still has to walk: the counter is decremented for nil elements only", "pkg/vm", "TestC12Demo_ClearItems", "missed", "clear-keeps-aliases added after"),
 "C12-r8m2": ("POW tests its exponent with exp.Sign() < 0 || exp.Uint64() > maxSHLArg, dropping IsUint64()", "an exponent of 2^64+1: the low 64 bits pass the bound", "pkg/vm", "TestC12Demo_Pow", "missed", "narrowing-checked added after (found finding 107 on its first run)"),
 "C13-r8m1": ("Stack.ReverseTop answers n <= 1 before testing n against the stack depth", "REVERSEN with n == 1 on an empty stack halts instead of faulting", "pkg/vm", "TestC13Demo_ReverseN", "missed", "range-before-shortcut added after"),
 "C13-r8m2": ("PICKITEM on a byte array accepts index == len", "an index equal to the length: a Go runtime panic instead of the catchable VM exception", "pkg/vm", "TestC13Demo_PickItem", "missed", "index-bound-exclusive added after"),
 "C15-r8m1": ("Oracle.RequestInternal records the hash of the executing transaction as OriginalTxID, getOriginalTxID removed", "a request made from an oracle callback: the chained response carries the oracle transaction's signers instead of the original ones", "pkg/core/native/native_test", "TestC15Demo_OracleChainedRequestKeepsOriginalSigners", "missed", "original-tx-through-response added after"),
 "C15-r8m2": ("checkScope consults AllowedContracts without testing the CustomContracts bit", "a signer with leftover AllowedContracts and another scope", "pkg/core/interop/runtime", "TestC15Demo_AllowedContractsNeedCustomContractsScope", "DETECTED cond-context", "cond-context existed and failed the check, but as a lost anchor (the if it is about was gone); scope-field-under-bit added to report the change as what it is"),
 "C19-r8m1": ("NEO.InitializeCache decides whether the committee is to be recomputed by ShouldUpdateCommitteeAt(blockHeight) instead of blockHeight+1", "a restart at an epoch boundary: the restarted validator works with another validator set than the others", "pkg/consensus", "TestC19Demo_M1", "missed", "epoch-boundary-agrees added after"),
 "C19-r8m2": ("extensibleVerifyMaxGAS lowered to 0.02 GAS", "the committee raising the execution fee factor: consensus payloads no longer verify and the network stops", "pkg/consensus", "TestC19Demo_M2", "missed", "verify-budget-covers-signature added after"),
 "C20-r8m1": ("statesync.AddBlock stores the transactions of a block under s.blockHeight instead of block.Index", "any synchronised block with transactions: Ledger.getTransactionHeight answers one less than on other nodes", "pkg/core/statesync", "TestC20Demo_", "missed", "tx-stored-at-block-index added after"),
 "C20-r8m2": ("Queue.Run leaves the loop without emptying the slot when the ledger refuses the element", "a forged block of the next height arriving before the real one: the real block is never taken", "pkg/network/bqueue", "TestC20Demo_", "missed", "refused-leaves-ring added after"),
}
sweep = subprocess.run(["/verif/tools/seed_sweep.py"] + sys.argv[1:], capture_output=True, text=True).stdout
det = {}
for line in sweep.splitlines():
    parts = line.split()
    if len(parts) >= 2:
        det[parts[0]] = (parts[1], " ".join(parts[2:]))
for name, row in sorted(T.items()):
    d = "/verif/seeded/" + name
    if not os.path.isfile(d + "/patch.diff") or name not in det:
        print(name, "skipped"); continue
    what, needs, demodir, test, first, hist = row
    status, rules = det[name]
    meta = {"property": name[:3], "round": 8, "what": what, "needs": needs,
            "demo": {"copy_to": demodir, "run": "go test -count=1 -run '%s' ./%s/" % (test, demodir)},
            "confirmed": open(d + "/verify.log").read().strip().splitlines() if os.path.isfile(d + "/verify.log") else [],
            "first_sweep": first, "detection": status, "detected_by": rules if status == "DETECTED" else None,
            "source": "fresh sub-agent given only the property text and the list of earlier mutations to avoid; confirmed by tools/verify_seed.sh in a scratch worktree",
            "history": hist}
    json.dump(meta, open(d + "/meta.json", "w"), indent=1)
    print("%-12s %-9s %s" % (name, status, rules))
