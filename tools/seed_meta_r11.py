#!/usr/bin/env python3
"""meta.json for round 11 (C01, C02, C03, C07, C09, C10, C11, C16, C17)."""
import json, os, subprocess, sys
T = {
 "C01-r11m1": ("NEO.dropCandidateIfZero deletes the stored reward-per-vote record and no longer the gasPerVoteCache entry", "a committee member dropped after an epoch boundary, a restart of one node, the same key registered and voted for again", "pkg/core", "TestC01Demo_M1", "missed", "voter-cache-follows-storage added after"),
 "C01-r11m2": ("AddBlock takes a transaction for verified when its hash is in the pool (ContainsKey) instead of comparing the witnesses (isPooledAsIs removed): the repair of findings 50/51 undone", "a block carrying a pooled transaction's hash with another witness, and two nodes whose pools differ", "pkg/core", "TestC01Demo_M2", "missed", "witness-covered-shortcut existed and caught it under C06, C07, C19 and C20; registered for C01 after"),
 "C02-r11m1": ("resetTransfers no longer lowers removeFollowing when the walk reaches the next account", "an account with a batch wholly above the reset height and, sorted after it, an account with two or more batches below it", "pkg/core", "TestC02Demo_ResetKeepsTransferBatchesOfLaterAccounts", "missed", "group-flag-reset added after"),
 "C02-r11m2": ("the 'chain is at the proper state' shortcut of resetStateInternal hoisted out of the stage == none test", "a crash between the headers batch and the final batch of a reset: the resumed reset returns at once, on every start", "pkg/core", "TestC02Demo_ResetCrashAtEveryBatch", "missed", "reset-precheck-stage-gated added after (the same statement as C02-r9m2, another clause)"),
 "C03-r11m1": ("GetTestHistoricVM advances the fake block's time by the live milliseconds-per-block instead of the value in force at the requested height", "Echidna, a setMillisecondsPerBlock after the requested height, a script reading the time", "pkg/core/native/native_test", "TestC03Demo_HistoricTimeAfterBlockTimeChange", "DETECTED context-height", "rule existed before the seed was looked at (finding 90 re-introduced)"),
 "C07-r11m1": ("checkTxConflicts releases an evicted conflict's fees to the new transaction's author when the author merely co-signed it (HasSigner) instead of when it paid it", "t1 paid by A, x paid by B and co-signed by A, t2 paid by A with Conflicts(x), A's balance between", "pkg/core/mempool", "TestC07Demo_ConflictOfForeignPayerFreesNoFunds", "missed", "index-comaintenance (same-payer gate) existed and caught it under C08; registered for C07 after"),
 "C07-r11m2": ("Transaction.isValid compares each signer with its predecessor only (the mutation of C06-r9m2, delivered for C07)", "signers A, B, A", "pkg/core/transaction", "TestC07Demo_NonAdjacentDuplicateSigner", "DETECTED uniqueness-all-pairs", "rule written for C06-r9m2 two hours before, registered for C07 then"),
 "C09-r11m1": ("MemoryStore.SeekGC deletes from s.mem instead of the map chooseMap picks", "the in-memory backend and a collection over the contract-storage prefixes (the stale-storage step of a state reset)", "pkg/core/storage", "TestC09Demo_SeekGCStorageRange", "DETECTED stor-routing,twin-maps", "rules existed before the seed was looked at"),
 "C09-r11m2": ("the storage Find iterator builds the full key with append(s.prefix, key...) instead of slices.Concat", "short keys, no RemovePrefix, a script that keeps a returned key across the next Value()", "pkg/core/interop/storage", "TestC09Demo_FindCollectedKeys", "missed", "append-to-shared-field added after"),
 "C10-r11m1": ("the leaf decoder refuses a value of exactly MaxValueLength bytes (>= for >)", "a value of the maximum length, then any reload or proof", "pkg/core/mpt", "TestC10Demo_MaxLenValue", "DETECTED key-bound-agreement", "rule existed before the seed was looked at"),
 "C10-r11m2": ("Billet.tryCollapseLeaf ignores keepExpanded", "unflushed changes, a Find over them, then Get/GetProof/Put of a visited key before the next Flush", "pkg/core/mpt", "TestC10Demo_FindThenRead", "DETECTED collapse-owner", "rule existed before the seed was looked at (finding 54)"),
 "C11-r11m1": ("Trie.updateRefCount reads the stored record with a raw Store.Get (sixth delivery of the raw read, in GC mode this time)", "GC mode, a node deleted in one block and re-created in a later one before collection", "pkg/core/mpt", "TestC11Demo_RecreateAfterDeactivation", "DETECTED mpt-reader", "rule existed before the seed was looked at"),
 "C11-r11m2": ("resetStateInternal opens the TrieStore over the target root with the GC flag", "RemoveUntraceableBlocks, a chain shorter than MaxTraceableBlocks, a reset below the top", "pkg/core", "TestC11Demo_ResetStateWithGC", "DETECTED historic-root", "rule existed before the seed was looked at (finding 49)"),
 "C16-r11m1": ("callInternal strips only WriteStates from the flags of a safe method, AllowNotify stays", "a method marked safe that notifies, called with AllowNotify", "pkg/core/interop/contract", "TestC16Demo_SafeMethodNotify", "DETECTED call-guards", "rule existed before the seed was looked at"),
 "C16-r11m2": ("Groups.AreValid verifies signatures inside the sorted duplicate-key loop, which skips index 0", "a manifest with two or more groups, the forged one having the smallest key", "pkg/core/interop/contract", "TestC16Demo_ForgedGroupMembership", "missed", "all-groups-verified added after"),
 "C17-r11m1": ("Signer.DecodeBinary refuses Global only next to the three custom scopes, not next to CalledByEntry", "scope byte 0x81: valid on the wire, no JSON form", "pkg/core/transaction", "TestC17Demo_GlobalCombinedScope", "missed", "global-scope-exclusive added after"),
 "C17-r11m2": ("the stack item decoder reads an Integer body with the generic MaxSize limit instead of bigint.MaxBytesLen", "an Integer item with a body longer than 32 bytes: NewBigInteger panics", "pkg/vm/stackitem", "TestC17Demo_OversizedIntegerDeserialize", "missed", "integer-body-bounded added after (decoder-panics listed the read as the validation without looking at its limit)"),
}
sweep = subprocess.run(["/verif/tools/seed_sweep.py"] + sys.argv[1:], capture_output=True, text=True).stdout
det = {}
for line in sweep.splitlines():
    parts = line.split()
    if len(parts) >= 2:
        det[parts[0]] = (parts[1], " ".join(parts[2:]))
for name, row in sorted(T.items()):
    d = "/verif/seeded/" + name
    if not os.path.isfile(d + "/patch.diff") or name not in det:
        print(name, "skipped"); continue
    what, needs, demodir, test, first, hist = row
    status, rules = det[name]
    meta = {"property": name[:3], "round": 11, "what": what, "needs": needs,
            "demo": {"copy_to": demodir, "run": "go test -count=1 -run '%s' ./%s/" % (test, demodir)},
            "confirmed": open(d + "/verify.log").read().strip().splitlines() if os.path.isfile(d + "/verify.log") else [],
            "first_sweep": first, "detection": status, "detected_by": rules if status == "DETECTED" else None,
            "source": "fresh sub-agent given only the property text and the list of earlier mutations to avoid; confirmed by tools/verify_seed.sh in a scratch worktree",
            "history": hist}
    json.dump(meta, open(d + "/meta.json", "w"), indent=1)
    print("%-12s %-9s %s" % (name, status, rules))
