#!/usr/bin/env python3
"""benign_sweep.py [name-prefix] — runs the listed property checks on every behaviour-preserving variant under
/verif/benign (overlay; /repo untouched). Every check must stay silent (exit 0)."""
import json, os, re, shutil, subprocess, sys, tempfile
from concurrent.futures import ThreadPoolExecutor
verif = "/verif"
pref = sys.argv[1] if len(sys.argv) > 1 else ""
names = sorted(d for d in os.listdir(verif + "/benign") if d.startswith(pref) and os.path.isfile(f"{verif}/benign/{d}/patch.diff"))
def run(name):
    meta = json.load(open(f"{verif}/benign/{name}/meta.json"))
    patch = f"{verif}/benign/{name}/patch.diff"
    od = tempfile.mkdtemp(prefix="bn")
    res = []
    try:
        for f in re.findall(r"^\+\+\+ b/(\S+)", open(patch).read(), re.M):
            os.makedirs(os.path.dirname(f"{od}/{f}"), exist_ok=True)
            shutil.copy(f"/repo/{f}", f"{od}/{f}")
        r = subprocess.run(["patch", "-p1", "-s", "--no-backup-if-mismatch", "-d", od, "-i", patch], capture_output=True, text=True)
        if r.returncode != 0:
            return name, [("-", "STALE", "")]
        for prop in meta["properties"]:
            r = subprocess.run([f"{verif}/bin/nvcheck", "-property", prop, "-overlay-dir", od, "-out", od + "/out", "-known", f"{verif}/known_findings.json"], capture_output=True, text=True)
            lines = [l.strip()[:260] for l in r.stdout.splitlines() if "rule " in l and ("[violation]" in l or "[coverage-lost]" in l)]
            res.append((prop, "silent" if r.returncode == 0 else "ALARM exit=%d" % r.returncode, "\n      ".join(lines[:4])))
    finally:
        shutil.rmtree(od, ignore_errors=True)
    return name, res
bad = 0
with ThreadPoolExecutor(max_workers=4) as ex:
    for name, res in ex.map(run, names):
        for prop, st, detail in res:
            print("%-36s %-4s %s" % (name, prop, st))
            if st != "silent":
                bad += 1
                if detail:
                    print("      " + detail)
sys.exit(1 if bad else 0)
