#!/usr/bin/env python3
"""meta.json for round 6 second half (C01-C06, C08, C10, C13, C15, C17, C19)."""
import json, os, subprocess, sys
T = {
 "C01-r6m1": ("NEO.InitializeCache no longer marks the rebuilt cache votesChanged", "a vote in an epoch, a restart before the epoch's last block: the new-epoch committee is not recomputed", "pkg/core/native/native_test", "TestC01Demo_VoteThenRestartMidEpoch", "DETECTED cache-init", "rule existed before the seed was looked at"),
 "C01-r6m2": ("Policy.fillCacheFromDAO decodes the method offset of a whitelisted-fee key little-endian", "a whitelisted fee record (Faun) and a path that rebuilds the cache from the database (restart, historic invocation)", "pkg/core/native/native_test", "TestC01Demo_WhitelistedFeeAfterRestart", "missed", "integer-in-key clause of endianness-agreement added after (registered for C01)"),
 "C02-r6m1": ("removeUntraceableBlocks compares a GC period number with a header-page number (multiplication by GarbageCollectionPeriod dropped)", "GarbageCollectionPeriod > 1 and a restart while the current header-hash page is unsaved", "pkg/core", "TestC02Demo_GCKeepsBlocksOfUnsavedHeaderPage", "missed", "gc-units (unit inference over the collector's arithmetic) added after"),
 "C02-r6m2": ("persist takes the double-entrance lock only for asynchronous flushes (same mutation as C09-r6m1, delivered for C02)", "PersistSync overlapping the backend write of a timer flush", "pkg/core/storage", "TestC02Demo_SyncFlushDuringTimerFlush", "DETECTED swap-order", "rule existed before the seed was looked at"),
 "C03-r6m1": ("the failed-flush branch of persist merges contract storage with the arguments swapped (flushed over newer)", "a backend write error during a flush while a block is being stored", "pkg/core", "TestC03Demo_PersistFailureDuringBlock", "missed", "failed-flush clause of swap-order generalised to the mergedMaps helper (both maps, argument order) and registered for C03"),
 "C03-r6m2": ("the MPT-backed rerun of an iterator session takes the chain height instead of the height the first run used", "RPC.SessionBackedByMPT and a block arriving between the two runs (or simply: the rerun is one block behind)", "pkg/services/rpcsrv", "TestC03Demo_MPTBackedSessionState", "missed", "mpt-session-same-height clause of historic-resolves-historic added after"),
 "C04-r6m1": ("Policy.BlockAccountInternalDeferrable fetches the writable cache before the deferred call and closes over it", "blockAccount of a voter whose reward callback opens a nested rollback scope; the insert lands in a cache copy that is dropped", "pkg/core/native/native_test", "TestC04Demo_BlockAccountSurvivesNestedRollbackScope", "missed", "continuation-fresh-index extended to RW-cache pointers captured by continuations"),
 "C04-r6m2": ("RIGHT returns a Buffer that aliases its operand", "a stored value read by Storage.Get, RIGHT over it, a write into the buffer, then a fault", "pkg/core/interop/storage", "TestC04Demo_StoredValueSurvivesFailedExecution", "missed", "buffer-owns-bytes added after"),
 "C05-r6m1": ("GAS.increaseBalance compares the balance with the signed (negative) amount", "a GAS transfer above the sender's balance", "pkg/core/native/native_test", "TestC05Demo_GASOverdraft", "DETECTED token-writers", "rule existed before the seed was looked at"),
 "C05-r6m2": ("vote stores the voter's account only after the GAS reward (and the voter's payment callback) was delivered", "a contract voter whose onNEP17Payment votes or transfers NEO again", "pkg/core/native/native_test", "TestC05Demo_VoteRewardReentrancy", "missed", "write-before-callout added after"),
 "C06-r6m1": ("AddBlock's in-block Conflicts check sees only transactions listed earlier (two loops merged; rebased after fix ff6c77f)", "a block [B, A] where B names A in Conflicts and shares a signer", "pkg/core", "TestC06Demo_ConflictListedBeforeItsTarget", "missed", "fill-before-lookup clause of tx-compatible added after"),
 "C06-r6m2": ("HeaderHashes.addHeaders takes the expected index before it takes the lock", "two goroutines delivering overlapping header batches", "pkg/core", "TestC06Demo_ConcurrentHeaderDelivery", "missed", "fresh-under-lock added after"),
 "C08-r6m1": ("Pool.removeInternal removes from the sorted list by swapping in the tail", "removal of a non-tail entry (any block that takes part of the pool)", "pkg/core/mempool", "TestC08Demo_M1", "missed", "ordered-slice-stable added after"),
 "C08-r6m2": ("Pool.Add looks for a duplicate under the read lock and inserts under the write lock without looking again", "two concurrent Adds of one transaction", "pkg/core/mempool", "TestC08Demo_M2", "missed", "check-then-lock clause of fresh-under-lock added after (registered for C08)"),
 "C10-r6m1": ("Trie.updateRefCount reads the existing record with a raw store Get (same family as earlier raw-read seeds, in the writer)", "GC mode, a node hash that vanishes in one flush and reappears before the collector runs, then a reload", "pkg/core/mpt", "TestC10Demo_GC", "DETECTED mpt-reader", "rule existed before the seed was looked at"),
 "C10-r6m2": ("Trie.GetProof refuses a key of exactly MaxKeyLength bytes", "a 64-byte storage key (68-byte trie key): stored, counted in the root, no proof", "pkg/core/mpt", "TestC10Demo_MaxLenKeyProof", "missed", "key-bound-agreement added after"),
 "C13-r6m1": ("SETITEM on a Buffer rejects -128..-1", "a negative byte value stored into a Buffer", "pkg/vm", "TestC13Demo_SetItemBufferSignedByte", "missed", "buffer-byte-range clause of limit-guards added after (registered for C13)"),
 "C13-r6m2": ("Map.Drop removes by swapping in the last element", "REMOVE of a non-last key of a map, then KEYS/VALUES/UNPACK", "pkg/vm", "TestC13Demo_MapRemoveKeepsOrder", "missed", "ordered-slice-stable added after"),
 "C15-r6m1": ("Oracle.finishDeferrable drops the request signers with a defer, i.e. before the asynchronous callback runs", "an oracle callback that calls CheckWitness for a signer of the request transaction", "pkg/core/native/native_test", "TestC15Demo_OracleCallbackSigners", "missed", "override-outlives-callout clause of cond-context added after"),
 "C15-r6m2": ("InitVerificationContext loads a contract's verify method with the contract as its own caller", "a contract-based witness whose verify checks a witness with CalledByEntry/CalledByContract rules", "pkg/core", "TestC15Demo_ContractVerificationHasNoCaller", "missed", "verification-has-no-caller clause of cond-context added after"),
 "C17-r6m1": ("bigint.ToPreallocatedBytes restores the borrowed one with the borrow loop's carry test", "a negative integer whose magnitude has a zero low word (multi-word): the source value is changed by encoding it", "pkg/vm/stackitem", "TestC17Demo_M1", "missed", "wrap-carry registered for C17 and extended to the restoring loop"),
 "C17-r6m2": ("Transaction.Copy keeps the cached size", "a copy of a transaction whose size is cached, modified afterwards", "pkg/core/transaction", "TestC17Demo_M2", "missed", "copy-resets-caches added after"),
 "C19-r6m1": ("handleChainBlock resets dBFT for b.Index >= BlockIndex-1", "a validator catching up by two blocks whose second notification is handled after it committed", "pkg/consensus", "TestC19Demo_M1", "missed", "reset-only-forward added after"),
 "C19-r6m2": ("OnTransaction hands a fetched transaction to dBFT only if the node's own pool takes it", "pools split by conflicting spends of one balance", "pkg/consensus", "TestC19Demo_M2", "missed", "fetched-tx-ungated added after"),
}
sweep = subprocess.run(["/verif/tools/seed_sweep.py"] + sys.argv[1:], capture_output=True, text=True).stdout
det = {}
for line in sweep.splitlines():
    parts = line.split()
    if len(parts) >= 2:
        det[parts[0]] = (parts[1], " ".join(parts[2:]))
for name, row in sorted(T.items()):
    d = "/verif/seeded/" + name
    if not os.path.isfile(d + "/patch.diff") or name not in det:
        print(name, "skipped"); continue
    what, needs, demodir, test, first, hist = row
    status, rules = det[name]
    meta = {"property": name[:3], "round": 6, "what": what, "needs": needs,
            "demo": {"copy_to": demodir, "run": "go test -count=1 -run '%s' ./%s/" % (test, demodir)},
            "confirmed": open(d + "/verify.log").read().strip().splitlines() if os.path.isfile(d + "/verify.log") else [],
            "first_sweep": first, "detection": status, "detected_by": rules if status == "DETECTED" else None,
            "source": "fresh sub-agent given only the property text and the list of earlier mutations to avoid; confirmed by tools/verify_seed.sh in a scratch worktree",
            "history": hist}
    json.dump(meta, open(d + "/meta.json", "w"), indent=1)
    print("%-12s %-9s %s" % (name, status, rules))
