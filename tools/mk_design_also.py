#!/usr/bin/env python3
"""Keeps every §4 section of DESIGN.md honest about what is registered for its property: appends (between markers) the
rules registered for the property that the section's own text does not mention, with their one-line descriptions."""
import re, subprocess, collections
V = "/verif/"
out = subprocess.run([V + "bin/nvcheck", "-list"], capture_output=True, text=True, check=True).stdout
rules = collections.OrderedDict()
for line in out.splitlines():
    pid, rule, doc = line.split("\t", 2)
    rules.setdefault(pid, []).append((rule, doc))
s = open(V + "DESIGN.md").read()
a4 = s.index("## 4. Per property"); a5 = s.index("## 5. Not applicable")
sec4 = s[a4:a5]
heads = [(m.start(), m.group(1)) for m in re.finditer(r"^### (C\d\d) — .*$", sec4, re.M)]
res = sec4[:heads[0][0]] if heads else sec4
for i, (pos, pid) in enumerate(heads):
    end = heads[i + 1][0] if i + 1 < len(heads) else len(sec4)
    body = sec4[pos:end]
    body = re.sub(r"<!-- ALSO:BEGIN -->.*?<!-- ALSO:END -->\n*", "", body, flags=re.S)
    missing = [(r, d) for r, d in rules.get(pid, []) if "`" + r + "`" not in body]
    if missing:
        body = body.rstrip("\n") + "\n\n<!-- ALSO:BEGIN -->\n**Also registered for " + pid + " (added in rounds 4-5 and after; the clause each one decides, in the checker's own words - §3 has the how and why):**\n" + "\n".join("- `%s` — %s." % (r, d.rstrip(".")) for r, d in missing) + "\n<!-- ALSO:END -->\n\n"
    res += body
s = s[:a4] + res + s[a5:]
open(V + "DESIGN.md", "w").write(s)
print("sections:", len(heads))
