#!/bin/bash
# usage: check.sh <property-id> [quick|thorough]
#        check.sh --replay <replay-file>
# Static analysis of /repo's current working tree (re-loaded on every call); exit 0 = all obligations
# discharged (or listed as known findings), exit 1 + "VIOLATION property=<id> replay=<path>" otherwise.
set -uo pipefail
. "$(dirname "${BASH_SOURCE[0]}")/env.sh"
REPO="${VERIF_REPO:-/repo}"
BIN="$VERIF_DIR/bin/nvcheck"
if [ ! -x "$BIN" ] || [ -n "$(find "$VERIF_DIR/checker" -name '*.go' -newer "$BIN" -print -quit 2>/dev/null)" ]; then
  (cd "$VERIF_DIR/checker" && go build -o "$BIN" .) || { echo "cannot build checker" >&2; exit 2; }
fi
if [ "${1:-}" = "--replay" ]; then
  exec "$BIN" -repo "$REPO" -known "$VERIF_DIR/known_findings.json" -out "$VERIF_DIR/out" -replay "$2"
fi
ID="${1:?property id}"
TIER="${2:-${VERIF_TIER:-quick}}"
EV="$VERIF_DIR/evidence/$ID.json"
mkdir -p "$VERIF_DIR/evidence" "$VERIF_DIR/out"
if [ "$TIER" = quick ]; then
  exec "$BIN" -repo "$REPO" -property "$ID" -tier quick -known "$VERIF_DIR/known_findings.json" -out "$VERIF_DIR/out" -evidence "$EV"
fi
exec "$VERIF_DIR/thorough.sh" "$ID"
